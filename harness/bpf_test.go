package vt

import (
	"encoding/json"
	"flag"
	"net/netip"
	"os"
	"testing"

	"golang.org/x/net/bpf"

	"github.com/DataDog/datadog-traceroute/packets"
)

var (
	flagBpfDump  = flag.String("vt.bpfdump", "", "write the classic-BPF programs of the working tree for the configs in -vt.in")
	flagBpfCheck = flag.String("vt.bpfcheck", "", "run the frames of this file through the real VM and compare verdicts")
)

type bpfCfg struct {
	Name  string `json:"name"`
	Type  int    `json:"ftype"` // packets.PacketFilterType
	Src   [4]int `json:"src"`
	Dst   [4]int `json:"dst"`
	SPort int    `json:"sport"`
	DPort int    `json:"dport"`
}
type bpfIns struct {
	Op int    `json:"op"`
	Jt int    `json:"jt"`
	Jf int    `json:"jf"`
	K  [2]int `json:"k"`
}
type bpfProg struct {
	bpfCfg
	Prog []bpfIns `json:"prog"`
	Err  string   `json:"err"`
}

func specOf(c bpfCfg) packets.PacketFilterSpec {
	a := func(b [4]int) netip.Addr {
		return netip.AddrFrom4([4]byte{byte(b[0]), byte(b[1]), byte(b[2]), byte(b[3])})
	}
	return packets.PacketFilterSpec{FilterType: packets.PacketFilterType(c.Type), FilterConfig: packets.FilterConfig{
		Src: netip.AddrPortFrom(a(c.Src), uint16(c.SPort)), Dst: netip.AddrPortFrom(a(c.Dst), uint16(c.DPort))}}
}

// TestBpfDump extracts the programs the code would install (H2 hook) for every configuration.
func TestBpfDump(t *testing.T) {
	if *flagBpfDump == "" {
		t.Skip()
	}
	var cfgs []bpfCfg
	b, err := os.ReadFile(*flagIn)
	if err != nil {
		t.Fatal(err)
	}
	if err := json.Unmarshal(b, &cfgs); err != nil {
		t.Fatal(err)
	}
	// every program is generated first and read afterwards: concurrent runs hold their programs at the same time,
	// so a program must not change when the filter for another tuple is generated
	raws := make([][]bpf.RawInstruction, len(cfgs))
	errs := make([]error, len(cfgs))
	for i, c := range cfgs {
		if c.Type < -1 {
			raws[i], errs[i] = bpf.Assemble(selfTest(c.Type))
		} else if c.Type < 0 {
			raws[i] = packets.VerifDropAllFilter()
		} else {
			raws[i], errs[i] = packets.VerifClassicBPF(specOf(c))
		}
	}
	out := []bpfProg{}
	for i, c := range cfgs {
		p := bpfProg{bpfCfg: c, Prog: []bpfIns{}}
		if errs[i] != nil {
			p.Err = errs[i].Error()
		}
		for _, r := range raws[i] {
			p.Prog = append(p.Prog, bpfIns{Op: int(r.Op), Jt: int(r.Jt), Jf: int(r.Jf), K: [2]int{int(r.K >> 16), int(r.K & 0xffff)}})
		}
		out = append(out, p)
	}
	j, _ := json.Marshal(out)
	if err := os.WriteFile(*flagBpfDump, j, 0o644); err != nil {
		t.Fatal(err)
	}
}

type bpfCase struct {
	Prog    int   `json:"prog"` // 1-based index into the dump
	Frame   []int `json:"frame"`
	Verdict bool  `json:"verdict"` // what the TLA+ interpreter computed
}

// TestBpfCheck runs TLC-chosen frames through the real x/net/bpf VM on the real programs.
func TestBpfCheck(t *testing.T) {
	if *flagBpfCheck == "" {
		t.Skip()
	}
	var progs []bpfProg
	b, _ := os.ReadFile(*flagIn)
	if err := json.Unmarshal(b, &progs); err != nil {
		t.Fatal(err)
	}
	f, err := os.Open(*flagBpfCheck)
	if err != nil {
		t.Fatal(err)
	}
	defer f.Close()
	dec := json.NewDecoder(f)
	res := struct {
		Checked  int       `json:"checked"`
		Disagree []bpfCase `json:"disagree"`
		Accepted int       `json:"accepted"`
	}{Disagree: []bpfCase{}}
	vms := map[int]*bpf.VM{}
	for dec.More() {
		var c bpfCase
		if err := dec.Decode(&c); err != nil {
			t.Fatal(err)
		}
		vm := vms[c.Prog]
		if vm == nil {
			raw := []bpf.RawInstruction{}
			for _, i := range progs[c.Prog-1].Prog {
				raw = append(raw, bpf.RawInstruction{Op: uint16(i.Op), Jt: uint8(i.Jt), Jf: uint8(i.Jf), K: uint32(i.K[0])<<16 | uint32(i.K[1])})
			}
			ins, _ := bpf.Disassemble(raw)
			vm, err = bpf.NewVM(ins)
			if err != nil {
				t.Fatalf("NewVM: %v", err)
			}
			vms[c.Prog] = vm
		}
		fr := make([]byte, len(c.Frame))
		for i, x := range c.Frame {
			fr[i] = byte(x)
		}
		n, err := vm.Run(fr)
		got := err == nil && n > 0
		res.Checked++
		if got {
			res.Accepted++
		}
		if got != c.Verdict {
			res.Disagree = append(res.Disagree, c)
		}
	}
	j, _ := json.Marshal(res)
	os.WriteFile(*flagOut, j, 0o644)
}

// selfTest: programs that use every opcode class of classic BPF (the repository's own programs use a handful); they are
// interpreted by Bpf.tla and run on the real VM over the same frames, so that a change of a program to other opcodes is
// judged by an interpreter that has been checked against the VM.
func selfTest(t int) []bpf.Instruction {
	switch t {
	case -2: // constant X, indexed load, ALU with constants, scratch memory, length
		return []bpf.Instruction{
			bpf.LoadConstant{Dst: bpf.RegX, Val: 20},
			bpf.LoadIndirect{Off: 14, Size: 2},
			bpf.ALUOpConstant{Op: bpf.ALUOpAdd, Val: 1},
			bpf.ALUOpConstant{Op: bpf.ALUOpShiftLeft, Val: 19},
			bpf.ALUOpConstant{Op: bpf.ALUOpShiftRight, Val: 3},
			bpf.ALUOpConstant{Op: bpf.ALUOpOr, Val: 0x10003},
			bpf.ALUOpConstant{Op: bpf.ALUOpAnd, Val: 0xfffffff7},
			bpf.ALUOpConstant{Op: bpf.ALUOpXor, Val: 0x80000005},
			bpf.StoreScratch{Src: bpf.RegA, N: 3},
			bpf.LoadExtension{Num: bpf.ExtLen},
			bpf.TAX{},
			bpf.LoadScratch{Dst: bpf.RegA, N: 3},
			bpf.ALUOpX{Op: bpf.ALUOpSub},
			bpf.JumpIf{Cond: bpf.JumpGreaterThan, Val: 0x80000000, SkipTrue: 1},
			bpf.RetConstant{Val: 0},
			bpf.ALUOpConstant{Op: bpf.ALUOpShiftRight, Val: 17},
			bpf.JumpIf{Cond: bpf.JumpBitsSet, Val: 0x2, SkipFalse: 1},
			bpf.RetConstant{Val: 0xffff},
			bpf.RetConstant{Val: 0},
		}
	case -3: // X from the header length, ALU with X, jumps on X, negation, X in scratch memory
		return []bpf.Instruction{
			bpf.LoadMemShift{Off: 14},
			bpf.StoreScratch{Src: bpf.RegX, N: 15},
			bpf.LoadIndirect{Off: 16, Size: 2},
			bpf.ALUOpX{Op: bpf.ALUOpAdd},
			bpf.ALUOpX{Op: bpf.ALUOpXor},
			bpf.ALUOpX{Op: bpf.ALUOpOr},
			bpf.ALUOpConstant{Op: bpf.ALUOpXor, Val: 0xffffffff}, // (the x/net/bpf VM does not implement NegateA: two's complement by hand)
			bpf.ALUOpConstant{Op: bpf.ALUOpAdd, Val: 1},
			bpf.ALUOpConstant{Op: bpf.ALUOpAnd, Val: 0xff},
			bpf.JumpIfX{Cond: bpf.JumpGreaterThan, SkipTrue: 3},
			bpf.JumpIfX{Cond: bpf.JumpEqual, SkipTrue: 1},
			bpf.JumpIfX{Cond: bpf.JumpBitsSet, SkipTrue: 1},
			bpf.RetConstant{Val: 0},
			bpf.LoadScratch{Dst: bpf.RegX, N: 15},
			bpf.TXA{},
			bpf.ALUOpX{Op: bpf.ALUOpShiftLeft},
			bpf.ALUOpConstant{Op: bpf.ALUOpShiftRight, Val: 16},
			bpf.RetA{},
		}
	default: // word loads, absolute and indexed, comparisons of full 32-bit values, jump always, X from the length
		return []bpf.Instruction{
			bpf.LoadExtension{Num: bpf.ExtLen},
			bpf.JumpIf{Cond: bpf.JumpGreaterOrEqual, Val: 38, SkipTrue: 1},
			bpf.RetConstant{Val: 0},
			bpf.LoadAbsolute{Off: 26, Size: 4},
			bpf.TAX{},
			bpf.LoadAbsolute{Off: 30, Size: 4},
			bpf.JumpIfX{Cond: bpf.JumpGreaterOrEqual, SkipTrue: 1},
			bpf.Jump{Skip: 2},
			bpf.ALUOpX{Op: bpf.ALUOpSub},
			bpf.JumpIf{Cond: bpf.JumpLessThan, Val: 0x01000000, SkipTrue: 1},
			bpf.RetConstant{Val: 1},
			bpf.LoadConstant{Dst: bpf.RegA, Val: 0xdeadbeef},
			bpf.ALUOpConstant{Op: bpf.ALUOpAdd, Val: 0x21524111},
			bpf.JumpIf{Cond: bpf.JumpEqual, Val: 0, SkipTrue: 1},
			bpf.RetConstant{Val: 0},
			bpf.LoadConstant{Dst: bpf.RegX, Val: 4},
			bpf.LoadIndirect{Off: 30, Size: 4},
			bpf.JumpIf{Cond: bpf.JumpBitsNotSet, Val: 0x00800000, SkipTrue: 1},
			bpf.RetConstant{Val: 7},
			bpf.RetConstant{Val: 0},
		}
	}
}
