package vt

import (
	"encoding/json"
	"flag"
	"net/netip"
	"os"
	"testing"

	"golang.org/x/net/bpf"

	"github.com/DataDog/datadog-traceroute/packets"
)

var (
	flagBpfDump  = flag.String("vt.bpfdump", "", "write the classic-BPF programs of the working tree for the configs in -vt.in")
	flagBpfCheck = flag.String("vt.bpfcheck", "", "run the frames of this file through the real VM and compare verdicts")
)

type bpfCfg struct {
	Name  string `json:"name"`
	Type  int    `json:"ftype"` // packets.PacketFilterType
	Src   [4]int `json:"src"`
	Dst   [4]int `json:"dst"`
	SPort int    `json:"sport"`
	DPort int    `json:"dport"`
}
type bpfIns struct {
	Op int    `json:"op"`
	Jt int    `json:"jt"`
	Jf int    `json:"jf"`
	K  [2]int `json:"k"`
}
type bpfProg struct {
	bpfCfg
	Prog []bpfIns `json:"prog"`
	Err  string   `json:"err"`
}

func specOf(c bpfCfg) packets.PacketFilterSpec {
	a := func(b [4]int) netip.Addr {
		return netip.AddrFrom4([4]byte{byte(b[0]), byte(b[1]), byte(b[2]), byte(b[3])})
	}
	return packets.PacketFilterSpec{FilterType: packets.PacketFilterType(c.Type), FilterConfig: packets.FilterConfig{
		Src: netip.AddrPortFrom(a(c.Src), uint16(c.SPort)), Dst: netip.AddrPortFrom(a(c.Dst), uint16(c.DPort))}}
}

// TestBpfDump extracts the programs the code would install (H2 hook) for every configuration.
func TestBpfDump(t *testing.T) {
	if *flagBpfDump == "" {
		t.Skip()
	}
	var cfgs []bpfCfg
	b, err := os.ReadFile(*flagIn)
	if err != nil {
		t.Fatal(err)
	}
	if err := json.Unmarshal(b, &cfgs); err != nil {
		t.Fatal(err)
	}
	// every program is generated first and read afterwards: concurrent runs hold their programs at the same time,
	// so a program must not change when the filter for another tuple is generated
	raws := make([][]bpf.RawInstruction, len(cfgs))
	errs := make([]error, len(cfgs))
	for i, c := range cfgs {
		if c.Type < 0 {
			raws[i] = packets.VerifDropAllFilter()
		} else {
			raws[i], errs[i] = packets.VerifClassicBPF(specOf(c))
		}
	}
	out := []bpfProg{}
	for i, c := range cfgs {
		p := bpfProg{bpfCfg: c, Prog: []bpfIns{}}
		if errs[i] != nil {
			p.Err = errs[i].Error()
		}
		for _, r := range raws[i] {
			p.Prog = append(p.Prog, bpfIns{Op: int(r.Op), Jt: int(r.Jt), Jf: int(r.Jf), K: [2]int{int(r.K >> 16), int(r.K & 0xffff)}})
		}
		out = append(out, p)
	}
	j, _ := json.Marshal(out)
	if err := os.WriteFile(*flagBpfDump, j, 0o644); err != nil {
		t.Fatal(err)
	}
}

type bpfCase struct {
	Prog    int   `json:"prog"` // 1-based index into the dump
	Frame   []int `json:"frame"`
	Verdict bool  `json:"verdict"` // what the TLA+ interpreter computed
}

// TestBpfCheck runs TLC-chosen frames through the real x/net/bpf VM on the real programs.
func TestBpfCheck(t *testing.T) {
	if *flagBpfCheck == "" {
		t.Skip()
	}
	var progs []bpfProg
	b, _ := os.ReadFile(*flagIn)
	if err := json.Unmarshal(b, &progs); err != nil {
		t.Fatal(err)
	}
	f, err := os.Open(*flagBpfCheck)
	if err != nil {
		t.Fatal(err)
	}
	defer f.Close()
	dec := json.NewDecoder(f)
	res := struct {
		Checked  int       `json:"checked"`
		Disagree []bpfCase `json:"disagree"`
		Accepted int       `json:"accepted"`
	}{Disagree: []bpfCase{}}
	vms := map[int]*bpf.VM{}
	for dec.More() {
		var c bpfCase
		if err := dec.Decode(&c); err != nil {
			t.Fatal(err)
		}
		vm := vms[c.Prog]
		if vm == nil {
			raw := []bpf.RawInstruction{}
			for _, i := range progs[c.Prog-1].Prog {
				raw = append(raw, bpf.RawInstruction{Op: uint16(i.Op), Jt: uint8(i.Jt), Jf: uint8(i.Jf), K: uint32(i.K[0])<<16 | uint32(i.K[1])})
			}
			ins, _ := bpf.Disassemble(raw)
			vm, err = bpf.NewVM(ins)
			if err != nil {
				t.Fatalf("NewVM: %v", err)
			}
			vms[c.Prog] = vm
		}
		fr := make([]byte, len(c.Frame))
		for i, x := range c.Frame {
			fr[i] = byte(x)
		}
		n, err := vm.Run(fr)
		got := err == nil && n > 0
		res.Checked++
		if got {
			res.Accepted++
		}
		if got != c.Verdict {
			res.Disagree = append(res.Disagree, c)
		}
	}
	j, _ := json.Marshal(res)
	os.WriteFile(*flagOut, j, 0o644)
}
