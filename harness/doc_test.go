package vt

import (
	"context"
	"encoding/json"
	"fmt"
	"math"
	"net"
	"reflect"
	"sort"
	"strings"
	"sync"
	"testing"
	"testing/synctest"

	gocache "github.com/patrickmn/go-cache"

	"github.com/DataDog/datadog-traceroute/cache"
	"github.com/DataDog/datadog-traceroute/result"
	"github.com/DataDog/datadog-traceroute/reversedns"

	"vt/wire"
)

// DocScript builds a result.Results by hand and runs the post-processing pipeline on it.
type DocScript struct {
	Runs []struct {
		Hops []struct {
			B    []int `json:"b"` // address bytes (0, 4 or 16)
			RTT  int   `json:"rtt"`
			Dest bool  `json:"dest"`
		} `json:"hops"`
		Dst []int `json:"dst"`
	} `json:"runs"`
	RTTs        []int       `json:"rtts"`
	FirstTTL    int         `json:"first_ttl"` // TTL of the first hop of every run (default 1: a library caller may start higher)
	DPort       *int        `json:"dport"`     // destination port of every run (default 33434; 0: ICMP has no ports)
	RTTDiv      int         `json:"rtt_div"`   // samples are rtts[i] / rtt_div milliseconds (0/1: whole milliseconds): sub-microsecond parts
	Enrich      bool        `json:"enrich"`
	SkipPrivate bool        `json:"skip_private"`
	DNS         wire.StrMap `json:"dns"`       // address string -> behaviour (see dnsAnswer); "a;b": first call a, later calls b; "+<ms>:x": x after a delay
	Realclock   bool        `json:"realclock"` // run on the real clock (stalled resolvers: the 5 s lookup timeout really elapses)
	Reprobe     bool        `json:"reprobe"`   // after the pipeline look every scripted address up again and log whether the resolver was asked
}

func init() { kinds["doc"] = runDoc; kinds["docstress"] = runDocStress }

func ipOf(b []int) net.IP {
	if len(b) == 0 {
		return nil
	}
	ip := make(net.IP, len(b))
	for i, x := range b {
		ip[i] = byte(x)
	}
	return ip
}

// milli converts every JSON number that is not an integer-typed published field into thousandths
// (TLC has integers only): rtt, avg, min, max, jitter, packet_loss_percentage, rtts[].
var floatPaths = map[string]bool{
	".traceroute.runs.hops.rtt": true, ".traceroute.hop_count.avg": true, ".e2e_probe.rtts": true,
	".e2e_probe.packet_loss_percentage": true, ".e2e_probe.jitter": true,
	".e2e_probe.rtt.avg": true, ".e2e_probe.rtt.min": true, ".e2e_probe.rtt.max": true,
}

func milli(path string, v any) any {
	switch x := v.(type) {
	case map[string]any:
		out := map[string]any{}
		for k, e := range x {
			out[k] = milli(path+"."+k, e)
		}
		return out
	case []any:
		out := make([]any, len(x))
		for i, e := range x {
			out[i] = milli(path, e)
		}
		return out
	case float64:
		if floatPaths[path] {
			return int64(math.Round(x * 1000))
		}
		return int64(x)
	case nil:
		return []any{} // nil slices (no runs / no samples) marshal as null: an empty sequence for the TLA+ side
	}
	return v
}

// keyPaths lists every key path of the marshalled document (the wire contract).
func keyPaths(prefix string, v any, acc map[string]bool) {
	switch x := v.(type) {
	case map[string]any:
		for k, e := range x {
			acc[prefix+"."+k] = true
			keyPaths(prefix+"."+k, e, acc)
		}
	case []any:
		for _, e := range x {
			keyPaths(prefix+"[]", e, acc)
		}
	}
}

func runDoc(t *testing.T, s *Scenario) (evs []wire.Event) {
	// in a bubble: the reverse-DNS timeout (5 s) and slow resolvers run on the virtual clock; "realclock" documents run outside
	// (a goroutine parked on a sync.Mutex is not durably blocked: lookups that are serialised by a lock while a resolver stalls
	// would freeze the virtual clock instead of showing up as a late return)
	if d, ok := s.Extra["doc"].(map[string]any); ok && d["realclock"] == true {
		return runDocInner(t, s)
	}
	synctest.Test(t, func(t *testing.T) { evs = runDocInner(t, s) })
	return evs
}

func runDocInner(t *testing.T, s *Scenario) []wire.Event {
	var ds DocScript
	raw, _ := json.Marshal(s.Extra["doc"])
	if err := json.Unmarshal(raw, &ds); err != nil {
		t.Fatalf("doc scenario %s: %v", s.ID, err)
	}
	w := wire.New(wire.Script{})
	oldCache := cache.Cache
	cache.Cache = gocache.New(gocache.NoExpiration, 0)
	defer func() { cache.Cache = oldCache }()
	oldLookup := reversedns.LookupAddrFn
	calls := map[string]int{}
	var mu sync.Mutex
	reversedns.LookupAddrFn = func(ctx context.Context, addr string) ([]string, error) {
		mu.Lock()
		calls[addr]++
		n := calls[addr]
		mu.Unlock()
		return dnsAnswerN(ctx, ds.DNS, addr, n)
	}
	defer func() { reversedns.LookupAddrFn = oldLookup }()

	res := &result.Results{Protocol: "udp"}
	dport := uint16(33434)
	if ds.DPort != nil {
		dport = uint16(*ds.DPort)
		if dport == 0 {
			res.Protocol = "icmp"
		}
	}
	firstTTL := 1
	if ds.FirstTTL > 1 {
		firstTTL = ds.FirstTTL
	}
	for _, r := range ds.Runs {
		run := result.TracerouteRun{Destination: result.TracerouteDestination{IPAddress: ipOf(r.Dst), Port: dport},
			Source: result.TracerouteSource{IPAddress: net.IPv4(10, 77, 0, 1).To4(), Port: 40000}}
		for i, h := range r.Hops {
			run.Hops = append(run.Hops, &result.TracerouteHop{TTL: i + firstTTL, IPAddress: ipOf(h.B), RTT: float64(h.RTT), IsDest: h.Dest})
		}
		res.Traceroute.Runs = append(res.Traceroute.Runs, run)
	}
	for _, x := range ds.RTTs {
		if ds.RTTDiv > 1 {
			res.E2eProbe.RTTs = append(res.E2eProbe.RTTs, float64(x)/float64(ds.RTTDiv))
			continue
		}
		res.E2eProbe.RTTs = append(res.E2eProbe.RTTs, float64(x))
	}
	w.LogEvent("Params", "variant", "doc", "entry", "doc", "strict", false, "min", 0, "max", 0, "timeout_us", 0, "delay_us", 0, "poll_us", 0,
		"target", "", "port", 0, "cancel_us", 0, "filter", false, "docin", s.Extra["doc"])
	panicked := ""
	var j1, j2 []byte
	func() {
		defer func() {
			if r := recover(); r != nil {
				panicked = fmt.Sprint(r)
			}
		}()
		// the order RunTraceroute applies: enrich, normalise, redact
		if ds.Enrich {
			res.EnrichWithReverseDns()
		}
		res.Normalize()
		if ds.SkipPrivate {
			res.RemovePrivateHops()
		}
		j1, _ = json.Marshal(res)
		var back result.Results
		if err := json.Unmarshal(j1, &back); err == nil {
			j2, _ = json.Marshal(&back)
		}
	}()
	if ds.Reprobe && panicked == "" {
		addrs := []string{}
		for a := range ds.DNS {
			addrs = append(addrs, a)
		}
		sort.Strings(addrs)
		for _, a := range addrs {
			mu.Lock()
			before := calls[a]
			mu.Unlock()
			names, err := reversedns.GetReverseDns(a)
			mu.Lock()
			after := calls[a]
			mu.Unlock()
			w.LogEvent("Got", "op", "reprobe", "key", a, "invoked", after != before, "ok", err == nil, "val", strings.Join(names, ","))
		}
	}
	var tree1, tree2 any
	json.Unmarshal(j1, &tree1)
	json.Unmarshal(j2, &tree2)
	kp := map[string]bool{}
	keyPaths("", tree1, kp)
	keys := []string{}
	for k := range kp {
		keys = append(keys, k)
	}
	sort.Strings(keys)
	ids := []string{}
	if panicked == "" {
		ids = append(ids, res.TestRunID)
		for _, r := range res.Traceroute.Runs {
			ids = append(ids, r.RunID)
		}
	}
	mu.Lock()
	dc := map[string]int{}
	for k, v := range calls {
		dc[k] = v
	}
	mu.Unlock()
	w.LogEvent("Return", "ok", panicked == "", "panic", panicked, "err", errInfo(nil), "has_result", true,
		"doc", milli("", tree1), "doc2", milli("", tree2), "rt_equal", reflect.DeepEqual(tree1, tree2) && len(j1) > 0, "keys", keys, "ids", ids, "dns_calls", dc, "fine", fineStats(tree1),
		"hops", []hopOut{}, "src", "", "sport", 0, "dst", "", "dport", 0,
		"goroutines", 0, "gsample", "", "opened", 0, "closed_once", 0, "bad_handles", []string{}, "accepts", 0)
	return w.Events()
}

// fineStats: the published end-to-end statistics in MILLIONTHS of a millisecond (the thousandths of milli() hide anything below 1 us).
func fineStats(tree any) map[string]int64 {
	out := map[string]int64{"jitter": 0, "min": 0, "max": 0, "avg": 0}
	m, _ := tree.(map[string]any)
	e, _ := m["e2e_probe"].(map[string]any)
	r, _ := e["rtt"].(map[string]any)
	f := func(v any) int64 {
		x, _ := v.(float64)
		if x > 2000 {
			x = 2000
		}
		return int64(math.Round(x * 1e6))
	}
	out["jitter"], out["min"], out["max"], out["avg"] = f(e["jitter"]), f(r["min"]), f(r["max"]), f(r["avg"])
	return out
}

// runDocStress: G goroutines finish N result documents each at the same time (what concurrent requests of the HTTP server do);
// every identifier handed out is logged in one line.
func runDocStress(t *testing.T, s *Scenario) []wire.Event {
	num := func(k string) int { v, _ := s.Extra[k].(float64); return int(v) }
	g, n, runs := num("g"), num("n"), num("runs")
	w := wire.New(wire.Script{})
	w.LogEvent("Params", "variant", "docstress", "entry", "docstress", "strict", false, "min", 0, "max", 0, "timeout_us", 0, "delay_us", 0, "poll_us", 0,
		"target", "", "port", 0, "cancel_us", 0, "filter", false, "g", g, "n", n, "runs", runs)
	got := make([][]string, g)
	gate := make(chan struct{})
	var wg sync.WaitGroup
	for ci := 0; ci < g; ci++ {
		wg.Add(1)
		go func(ci int) {
			defer wg.Done()
			<-gate
			for i := 0; i < n; i++ {
				res := &result.Results{Protocol: "udp"}
				for r := 0; r < runs; r++ {
					res.Traceroute.Runs = append(res.Traceroute.Runs, result.TracerouteRun{
						Hops: []*result.TracerouteHop{{TTL: 1, IPAddress: net.IPv4(8, 8, 8, 8).To4(), RTT: 1}}})
				}
				res.Normalize()
				got[ci] = append(got[ci], res.TestRunID)
				for _, r := range res.Traceroute.Runs {
					got[ci] = append(got[ci], r.RunID)
				}
			}
		}(ci)
	}
	close(gate)
	wg.Wait()
	all := []string{}
	for _, l := range got {
		all = append(all, l...)
	}
	w.LogEvent("Got", "op", "ids", "ids", all)
	w.LogEvent("Return", "ok", true, "panic", "", "err", errInfo(nil), "has_result", false, "hops", []hopOut{}, "src", "", "sport", 0, "dst", "", "dport", 0,
		"goroutines", 0, "gsample", "", "opened", 0, "closed_once", 0, "bad_handles", []string{}, "accepts", 0)
	return w.Events()
}
