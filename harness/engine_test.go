package vt

import (
	"context"
	"errors"
	"fmt"
	"net/netip"
	"os"
	"slices"
	"sync"
	"testing"
	"testing/synctest"
	"time"

	"github.com/DataDog/datadog-traceroute/common"

	"vt/wire"
)

// EngReply is a reply the scripted driver hands to the engine: DelayUs after probe OnTTL was sent.
type EngReply struct {
	OnTTL   int    `json:"on_ttl"` // the send that triggers it
	TTL     int    `json:"ttl"`    // TTL the driver reports (free driver: any value)
	Dest    bool   `json:"dest"`
	DelayUs int64  `json:"delay_us"`
	IP      int    `json:"ip"`  // responder index
	Err     string `json:"err"` // "" | bad | nopkt | fatal | nil (nil response, nil error)
}

// EngineScript drives common.TracerouteParallel / TracerouteSerial with a scripted TracerouteDriver.
type EngineScript struct {
	Engine     string     `json:"engine"` // parallel | serial
	Replies    []EngReply `json:"replies"`
	NoParallel bool       `json:"no_parallel"`
	SendFailAt []int      `json:"send_fail_at"` // SendProbe(ttl) returns a fatal error for these TTLs
}

type engDriver struct {
	mu     sync.Mutex
	w      *wire.Wire
	es     *EngineScript
	sent   map[int]time.Time
	queue  []EngReply
	notify chan struct{}
	timers []*time.Timer
	stop   bool
	t0     time.Time
}

var errEngFatal = errors.New("injected-engine-fatal")

func (d *engDriver) GetDriverInfo() common.TracerouteDriverInfo {
	return common.TracerouteDriverInfo{SupportsParallel: !d.es.NoParallel}
}

func (d *engDriver) SendProbe(ttl uint8) error {
	d.mu.Lock()
	defer d.mu.Unlock()
	if slices.Contains(d.es.SendFailAt, int(ttl)) {
		d.w.LogEvent("Send", "ttl", int(ttl), "fail", true)
		return errEngFatal
	}
	d.sent[int(ttl)] = time.Now()
	d.w.LogEvent("Send", "ttl", int(ttl), "fail", false)
	for _, r := range d.es.Replies {
		if r.OnTTL != int(ttl) {
			continue
		}
		r := r
		tm := time.AfterFunc(time.Duration(r.DelayUs)*time.Microsecond, func() {
			d.mu.Lock()
			defer d.mu.Unlock()
			if d.stop {
				return
			}
			d.queue = append(d.queue, r)
			d.w.LogEvent("Due", "ttl", r.TTL, "dest", r.Dest, "ip", r.IP, "err", r.Err)
			select {
			case d.notify <- struct{}{}:
			default:
			}
		})
		d.timers = append(d.timers, tm)
	}
	return nil
}

func (d *engDriver) ReceiveProbe(timeout time.Duration) (*common.ProbeResponse, error) {
	deadline := time.Now().Add(timeout)
	for {
		d.mu.Lock()
		if len(d.queue) > 0 {
			r := d.queue[0]
			d.queue = d.queue[1:]
			st, ok := d.sent[r.TTL]
			if !ok {
				st = d.t0 // a free driver may credit a TTL that was never sent: measure from the start, as the spec does
			}
			rtt := time.Since(st)
			d.w.LogEvent("Got", "ttl", r.TTL, "dest", r.Dest, "ip", r.IP, "err", r.Err, "rtt_us", rtt.Microseconds(),
				"addr", netip.AddrFrom4([4]byte{10, 0, byte(r.IP >> 8), byte(r.IP)}).String())
			d.mu.Unlock()
			switch r.Err {
			case "bad":
				return nil, &common.BadPacketError{Err: errors.New("scripted bad packet")}
			case "nopkt":
				return nil, common.ErrPacketDidNotMatchTraceroute
			case "fatal":
				return nil, errEngFatal
			case "nil":
				return nil, nil
			}
			return &common.ProbeResponse{TTL: uint8(r.TTL), IP: netip.AddrFrom4([4]byte{10, 0, byte(r.IP >> 8), byte(r.IP)}), RTT: rtt, IsDest: r.Dest}, nil
		}
		// the "no packet" verdict and its log line are taken under the same lock as the queue check (and as the Due lines):
		// the log order is then the order in which the driver state changed
		rem := time.Until(deadline)
		if rem <= 0 {
			d.w.LogEvent("Deadline")
			d.mu.Unlock()
			return nil, &common.ReceiveProbeNoPktError{Err: os.ErrDeadlineExceeded}
		}
		d.mu.Unlock()
		tm := time.NewTimer(rem)
		select {
		case <-d.notify:
			tm.Stop()
		case <-tm.C:
			// a reply that became readable at the very instant of the deadline is read (the log order is then
			// Due, Got, which is the order the spec's RDeadline/Arrive tie allows without an extra Deadline line):
			// loop once more, the deadline has passed and the queue is looked at under the lock
		}
	}
}

func runEngine(t *testing.T, s *Scenario) (evs []wire.Event) {
	s.defaults()
	es := s.Engine
	synctest.Test(t, func(t *testing.T) {
		w := wire.New(wire.Script{})
		d := &engDriver{w: w, es: es, sent: map[int]time.Time{}, notify: make(chan struct{}, 1), t0: time.Now()}
		tp := common.TracerouteParams{
			MinTTL: uint8(s.Min), MaxTTL: uint8(s.Max),
			TracerouteTimeout: time.Duration(s.TimeoutMs) * time.Millisecond,
			PollFrequency:     time.Duration(s.PollMs) * time.Millisecond,
			SendDelay:         time.Duration(s.DelayMs) * time.Millisecond,
		}
		w.LogEvent("Params", "variant", "engine_"+es.Engine, "entry", "engine", "strict", false, "min", s.Min, "max", s.Max,
			"timeout_us", int64(s.TimeoutMs)*1000, "delay_us", int64(s.DelayMs)*1000, "poll_us", int64(s.PollMs)*1000,
			"target", "", "port", 0, "cancel_us", s.CancelUs, "filter", false, "spec", s.Extra["spec"])
		ctx, cancel := context.WithCancel(context.Background())
		defer cancel()
		if boolExtra(s, "cancel_at_start") { // cancelled before the call (cancellation instant 0)
			w.LogEvent("Cancel")
			cancel()
		} else if s.CancelUs > 0 {
			tm := time.AfterFunc(time.Duration(s.CancelUs)*time.Microsecond, func() {
				w.LogEvent("Cancel")
				cancel()
			})
			defer tm.Stop()
		}
		var resp []*common.ProbeResponse
		var err error
		panicked := ""
		func() {
			defer func() {
				if r := recover(); r != nil {
					panicked = fmt.Sprint(r)
				}
			}()
			if es.Engine == "serial" {
				resp, err = common.TracerouteSerial(ctx, d, common.TracerouteSerialParams{TracerouteParams: tp})
			} else {
				resp, err = common.TracerouteParallel(ctx, d, common.TracerouteParallelParams{TracerouteParams: tp})
			}
		}()
		hops := []hopOut{}
		hopsErr := ""
		if err == nil && panicked == "" {
			hs, herr := common.ToHops(tp, resp)
			if herr != nil {
				hopsErr = herr.Error()
			}
			for _, h := range hs {
				o := hopOut{TTL: h.TTL, RTTUs: int64(h.RTT*1000 + 0.5), Dest: h.IsDest, Names: []string{}}
				if len(h.IPAddress) > 0 {
					a, _ := netip.AddrFromSlice(h.IPAddress)
					o.Addr = a.String()
				}
				hops = append(hops, o)
			}
		}
		d.mu.Lock()
		d.stop = true
		for _, tm := range d.timers {
			tm.Stop()
		}
		d.mu.Unlock()
		synctest.Wait()
		g, sample := repoGoroutines()
		ei := errInfo(err)
		ei["engfatal"] = errors.Is(err, errEngFatal)
		w.LogEvent("Return", "ok", err == nil && panicked == "" && hopsErr == "", "panic", panicked, "err", ei, "has_result", resp != nil,
			"hops", hops, "hops_err", hopsErr, "src", "", "sport", 0, "dst", "", "dport", 0,
			"goroutines", g, "gsample", sample, "opened", 0, "closed_once", 0, "bad_handles", []string{}, "accepts", 0)
		evs = w.Events()
	})
	return evs
}
