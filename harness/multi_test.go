package vt

import (
	"context"
	"encoding/json"
	"errors"
	"fmt"
	"math"
	"net"
	"net/http"
	"net/http/httptest"
	"net/netip"
	"os"
	"os/exec"
	"sort"
	"strconv"
	"strings"
	"sync"
	"testing"
	"testing/synctest"
	"time"

	gocache "github.com/patrickmn/go-cache"

	"github.com/DataDog/datadog-traceroute/cache"
	"github.com/DataDog/datadog-traceroute/icmp"
	"github.com/DataDog/datadog-traceroute/packets"
	"github.com/DataDog/datadog-traceroute/result"
	"github.com/DataDog/datadog-traceroute/reversedns"
	"github.com/DataDog/datadog-traceroute/server"
	"github.com/DataDog/datadog-traceroute/tcp"
	"github.com/DataDog/datadog-traceroute/traceroute"

	"vt/wire"
)

// RunParams drives traceroute.RunTraceroute (via = lib) or server.TracerouteHandler (via = http).
type RunParams struct {
	Via          string `json:"via"`
	Hostname     string `json:"hostname"`
	Port         int    `json:"port"`
	Protocol     string `json:"protocol"`
	MinTTL       int    `json:"min_ttl"`
	MaxTTL       int    `json:"max_ttl"`
	DelayMs      int    `json:"delay_ms"`
	TimeoutMs    int    `json:"timeout_ms"`
	TCPMethod    string `json:"tcp_method"`
	WantV6       bool   `json:"want_v6"`
	Paris        bool   `json:"paris"`
	ReverseDNS   bool   `json:"reverse_dns"`
	PublicIP     bool   `json:"public_ip"`
	Queries      int    `json:"queries"`
	E2E          int    `json:"e2e"`
	SkipPrivate  bool   `json:"skip_private"`
	Query        string `json:"query"`          // via http: raw query string
	HTTPMethod   string `json:"http_method"`    // via http: request method (default GET)
	HTTPPath     string `json:"http_path"`      // via http: /traceroute (default) or /health
	BrokenWriter int    `json:"broken_writer"`  // via http: the response writer fails after this many bytes (0 = healthy)
	StartDelayUs int64  `json:"start_delay_us"` // mix / main: the request starts this long after the scenario began
	// environment
	PubMode    string      `json:"pub_mode"`    // ok | fail | slow
	DNS        wire.StrMap `json:"dns"`         // addr -> "name1,name2" | "!err" | "~slow:name" | "" (empty list)
	TCPBlock   string      `json:"tcp_block"`   // "src2": policy routing gives TCP to the target another source address than UDP; "reject": the namespace's own filter answers a TCP connect to the target with ICMP host-unreachable (connect: EHOSTUNREACH)
	ListenPort int         `json:"listen_port"` // harness TCP listener on the target (SACK capability); 0 = none
}

type scriptedFetcher struct {
	mode  string
	calls int
	mu    sync.Mutex
}

func (f *scriptedFetcher) GetIP(ctx context.Context) (net.IP, error) {
	f.mu.Lock()
	f.calls++
	f.mu.Unlock()
	switch f.mode {
	case "fail":
		return nil, errors.New("injected-publicip-failure")
	case "slow":
		select {
		case <-time.After(2500 * time.Millisecond):
		case <-ctx.Done():
			return nil, ctx.Err()
		}
	}
	return net.ParseIP("203.0.113.77"), nil
}

// httpError: a non-200 answer of the server. The causes it exposes are the ones its TEXT names (the body is all a client gets).
type httpError struct {
	status int
	body   string
}

func (e *httpError) Error() string { return fmt.Sprintf("http %d: %s", e.status, e.body) }

type runOut struct {
	Src   string   `json:"src"`
	SPort int      `json:"sport"`
	Dst   string   `json:"dst"`
	DPort int      `json:"dport"`
	Hops  []hopOut `json:"hops"`
	RDNS  []string `json:"dst_rdns"`
}

// brokenWriter: an http.ResponseWriter whose client went away after n bytes.
type brokenWriter struct {
	h    http.Header
	left int
	code int
}

func (b *brokenWriter) Header() http.Header { return b.h }
func (b *brokenWriter) WriteHeader(c int)   { b.code = c }
func (b *brokenWriter) Write(p []byte) (int, error) {
	if len(p) <= b.left {
		b.left -= len(p)
		return len(p), nil
	}
	n := b.left
	b.left = 0
	return n, errors.New("harness: client went away")
}

// httpRequest runs one request through the server's handler; returns status, content type, body.
func httpRequest(ctx context.Context, srv *server.Server, q *RunParams) (int, string, string) {
	method := q.HTTPMethod
	if method == "" {
		method = "GET"
	}
	path := q.HTTPPath
	if path == "" {
		path = "/traceroute"
	}
	req := httptest.NewRequest(method, path+"?"+q.Query, nil).WithContext(ctx)
	if q.BrokenWriter > 0 {
		bw := &brokenWriter{h: http.Header{}, left: q.BrokenWriter}
		srv.TracerouteHandler(bw, req)
		return bw.code, "", ""
	}
	rec := httptest.NewRecorder()
	if path == "/health" {
		srv.HealthHandler(rec, req)
	} else {
		srv.TracerouteHandler(rec, req)
	}
	return rec.Code, rec.Header().Get("Content-Type"), rec.Body.String()
}

func libParams(q *RunParams) traceroute.TracerouteParams {
	return traceroute.TracerouteParams{
		Hostname: q.Hostname, Port: q.Port, Protocol: q.Protocol, MinTTL: q.MinTTL, MaxTTL: q.MaxTTL, Delay: q.DelayMs,
		Timeout: time.Duration(q.TimeoutMs) * time.Millisecond, TCPMethod: traceroute.TCPMethod(q.TCPMethod), WantV6: q.WantV6,
		TCPSynParisTracerouteMode: q.Paris, ReverseDns: q.ReverseDNS, CollectSourcePublicIP: q.PublicIP,
		TracerouteQueries: q.Queries, E2eQueries: q.E2E, SkipPrivateHops: q.SkipPrivate}
}

func init() { kinds["run"] = runRun; kinds["alloc"] = runAlloc; kinds["bpfgen"] = runBpfGen }

func runRun(t *testing.T, s *Scenario) (evs []wire.Event) {
	rp := s.Run
	if rp.Via == "" {
		rp.Via = "lib"
	}
	// a scenario may shrink the ephemeral port range of the harness's private network namespace
	if pr, ok := s.Extra["port_range"].([]any); ok && len(pr) == 2 {
		const f = "/proc/sys/net/ipv4/ip_local_port_range"
		if old, err := os.ReadFile(f); err == nil {
			if err := os.WriteFile(f, []byte(fmt.Sprintf("%d %d", int(pr[0].(float64)), int(pr[1].(float64)))), 0o644); err != nil {
				t.Fatalf("harness: port range: %v", err)
			}
			defer os.WriteFile(f, old, 0o644)
		}
	}
	if rp.TCPBlock == "reject" {
		rule := []string{"OUTPUT", "-p", "tcp", "-d", rp.Hostname, "-j", "REJECT", "--reject-with", "icmp-host-unreachable"}
		if out, err := exec.Command("iptables", append([]string{"-I"}, rule...)...).CombinedOutput(); err != nil {
			t.Fatalf("harness: iptables: %v %s", err, out)
		}
		defer exec.Command("iptables", append([]string{"-D"}, rule...)...).Run()
	}
	if rp.TCPBlock == "noudp" {
		// policy routing refuses datagram routes to the target (stream routes work)
		run := func(undo bool, lines ...string) {
			for _, l := range lines {
				if out, err := exec.Command("sh", "-c", l).CombinedOutput(); err != nil && !undo {
					t.Fatalf("harness: %s: %v %s", l, err, out)
				}
			}
		}
		run(false, "ip rule add pref 10 lookup local", "ip rule del pref 0", "ip rule add pref 5 ipproto udp to "+rp.Hostname+" unreachable")
		defer run(true, "ip rule del pref 5", "ip rule add pref 0 lookup local", "ip rule del pref 10")
	}
	if rp.TCPBlock == "src2" {
		// policy routing: TCP to the target leaves from ANOTHER local address (10.77.0.2) than everything else (10.77.0.1)
		sh := func(undo bool, lines ...string) {
			for _, l := range lines {
				if out, err := exec.Command("sh", "-c", l).CombinedOutput(); err != nil && !undo {
					t.Fatalf("harness: %s: %v %s", l, err, out)
				}
			}
		}
		sh(false, "ip addr add 10.77.0.2/32 dev lo", "ip rule add pref 10 lookup local", "ip rule del pref 0",
			"ip rule add pref 5 ipproto tcp to "+rp.Hostname+" lookup 77", "ip route add local "+rp.Hostname+"/32 dev lo src 10.77.0.2 table 77")
		defer sh(true, "ip rule del pref 5", "ip route flush table 77", "ip rule add pref 0 lookup local", "ip rule del pref 10", "ip addr del 10.77.0.2/32 dev lo")
	}
	synctest.Test(t, func(t *testing.T) {
		w := wire.New(s.Script)
		w.Install()
		defer wire.Uninstall()
		if s.IPIDBase != nil {
			packets.VerifSetPacketIDBase(uint32(*s.IPIDBase))
		}
		if s.EchoBase != nil {
			icmp.VerifSetEchoIDBase(uint32(*s.EchoBase))
		}
		tcp.VerifSeqNum = nil
		if s.SeqBase32 != nil {
			v := uint32(s.SeqBase32[0])<<16 | uint32(s.SeqBase32[1])
			tcp.VerifSeqNum = func() (uint32, bool) { return v, true }
		}
		if s.ISN32 != nil {
			w.SetISN(uint32(s.ISN32[0])<<16 | uint32(s.ISN32[1]))
		}
		// a janitor-less cache: the package-level janitor goroutine runs on the real clock
		oldCache := cache.Cache
		cache.Cache = gocache.New(5*time.Minute, 0)
		defer func() { cache.Cache = oldCache }()
		oldLookup := reversedns.LookupAddrFn
		dnsCalls := map[string]int{}
		var dnsMu sync.Mutex
		reversedns.LookupAddrFn = func(ctx context.Context, addr string) ([]string, error) {
			dnsMu.Lock()
			dnsCalls[addr]++
			dnsMu.Unlock()
			return dnsAnswer(ctx, rp.DNS, addr)
		}
		defer func() { reversedns.LookupAddrFn = oldLookup }()
		if rp.ListenPort != 0 {
			host := rp.Hostname
			if h, _, err := net.SplitHostPort(host); err == nil {
				host = h
			}
			if a, err := netip.ParseAddr(trimBrackets(host)); err == nil && a.Is4() {
				ln, err := net.Listen("tcp4", netip.AddrPortFrom(a, uint16(rp.ListenPort)).String())
				if err != nil {
					t.Fatalf("harness: listen: %v", err)
				}
				w.Listener = ln
			}
		}
		fetcher := &scriptedFetcher{mode: rp.PubMode}
		tr := traceroute.VerifNewTraceroute(fetcher)
		srv := server.VerifNewServer(tr)
		// history: requests that this process served BEFORE the one under test (same caches, same server, same package-level
		// state), each over a wire of its own that is not part of the trace
		for _, b := range s.Before {
			wire.Uninstall()
			w0 := wire.New(s.Script)
			w0.Install()
			func() {
				defer func() { recover() }()
				if b.Via == "http" {
					httpRequest(context.Background(), srv, b)
				} else {
					tr.RunTraceroute(context.Background(), libParams(b))
				}
			}()
			w0.Stop()
			synctest.Wait()
			wire.Uninstall()
			w.Install()
		}
		params := traceroute.TracerouteParams{
			Hostname: rp.Hostname, Port: rp.Port, Protocol: rp.Protocol, MinTTL: rp.MinTTL, MaxTTL: rp.MaxTTL, Delay: rp.DelayMs,
			Timeout: time.Duration(rp.TimeoutMs) * time.Millisecond, TCPMethod: traceroute.TCPMethod(rp.TCPMethod), WantV6: rp.WantV6,
			TCPSynParisTracerouteMode: rp.Paris, ReverseDns: rp.ReverseDNS, CollectSourcePublicIP: rp.PublicIP,
			TracerouteQueries: rp.Queries, E2eQueries: rp.E2E, SkipPrivateHops: rp.SkipPrivate,
		}
		w.LogEvent("Params", "variant", "run_"+rp.Protocol, "entry", "run", "via", rp.Via, "strict", false,
			"min", rp.MinTTL, "max", rp.MaxTTL, "timeout_us", int64(rp.TimeoutMs)*1000, "delay_us", int64(rp.DelayMs)*1000, "poll_us", 100000,
			"target", rp.Hostname, "port", rp.Port, "cancel_us", s.CancelUs, "filter", s.Script.Filter,
			"protocol", rp.Protocol, "tcp_method", rp.TCPMethod, "queries", rp.Queries, "e2e", rp.E2E, "reverse_dns", rp.ReverseDNS,
			"http_method", rp.HTTPMethod, "http_path", rp.HTTPPath, "expect_status", numExtra(s, "expect_status"), "expect", expectOf(s), "expect20", expect20Of(s), "expect17", expect17Of(s), "public_ip", rp.PublicIP, "pub_mode", rp.PubMode, "skip_private", rp.SkipPrivate, "query", rp.Query, "want_v6", rp.WantV6, "paris", rp.Paris, "others", len(s.Mix), "hist", len(s.Before))
		ctx, cancel := context.WithCancel(context.Background())
		defer cancel()
		if boolExtra(s, "cancel_at_start") { // the caller's context is already cancelled when the request starts
			w.LogEvent("Cancel")
			cancel()
		} else if s.CancelUs > 0 && boolExtra(s, "deadline") {
			// the caller's context carries a DEADLINE (it ends with context.DeadlineExceeded, a timeout-typed error) instead of being cancelled
			var c2 context.CancelFunc
			ctx, c2 = context.WithTimeout(ctx, time.Duration(s.CancelUs)*time.Microsecond)
			defer c2()
			tm := time.AfterFunc(time.Duration(s.CancelUs)*time.Microsecond, func() { w.LogEvent("Cancel") })
			defer tm.Stop()
		} else if s.CancelUs > 0 {
			tm := time.AfterFunc(time.Duration(s.CancelUs)*time.Microsecond, func() {
				w.LogEvent("Cancel")
				cancel()
			})
			defer tm.Stop()
		}
		var res *result.Results
		var err error
		status := 0
		body := ""
		ctype := ""
		panicked := ""
		var mixBodies []string // the answers to the other requests served at the same time (HTTP): their identifiers are part of the trace
		func() {
			defer func() {
				if r := recover(); r != nil {
					panicked = fmt.Sprint(r)
				}
			}()
			if rp.Via == "http" {
				// other requests served by the same server at the same time (their answers are not part of the trace)
				var owg sync.WaitGroup
				var mixMu sync.Mutex
				for _, q := range s.Mix {
					q := q
					owg.Add(1)
					go func() {
						defer owg.Done()
						if q.StartDelayUs > 0 {
							time.Sleep(time.Duration(q.StartDelayUs) * time.Microsecond)
						}
						_, _, b := httpRequest(ctx, srv, q)
						mixMu.Lock()
						mixBodies = append(mixBodies, b)
						mixMu.Unlock()
					}()
				}
				if rp.StartDelayUs > 0 {
					time.Sleep(time.Duration(rp.StartDelayUs) * time.Microsecond)
				}
				path := rp.HTTPPath
				if path == "" {
					path = "/traceroute"
				}
				status, ctype, body = httpRequest(ctx, srv, rp)
				owg.Wait()
				if status == 200 && path == "/traceroute" {
					res = &result.Results{}
					dec := json.NewDecoder(strings.NewReader(body))
					if e := dec.Decode(res); e != nil {
						err = fmt.Errorf("harness: undecodable body: %w", e)
						res = nil
					} else if dec.More() {
						err = fmt.Errorf("harness: the body holds more than one document")
						res = nil
					}
				} else if status != 200 {
					err = &httpError{status: status, body: body}
				}
			} else if len(s.Mix) > 0 {
				// several requests (any mix of protocols) running at once in one process over the shared wire
				var wg sync.WaitGroup
				var mu sync.Mutex
				merged := &result.Results{}
				var errs []error
				all := append([]*RunParams{rp}, s.Mix...)
				for _, q := range all {
					q := q
					wg.Add(1)
					go func() {
						defer wg.Done()
						r, e := tr.RunTraceroute(ctx, traceroute.TracerouteParams{
							Hostname: q.Hostname, Port: q.Port, Protocol: q.Protocol, MinTTL: q.MinTTL, MaxTTL: q.MaxTTL, Delay: q.DelayMs,
							Timeout: time.Duration(q.TimeoutMs) * time.Millisecond, TCPMethod: traceroute.TCPMethod(q.TCPMethod), WantV6: q.WantV6,
							TCPSynParisTracerouteMode: q.Paris, TracerouteQueries: q.Queries, E2eQueries: q.E2E})
						mu.Lock()
						defer mu.Unlock()
						if e != nil {
							errs = append(errs, e)
							return
						}
						merged.Traceroute.Runs = append(merged.Traceroute.Runs, r.Traceroute.Runs...)
						merged.E2eProbe.RTTs = append(merged.E2eProbe.RTTs, r.E2eProbe.RTTs...)
					}()
				}
				wg.Wait()
				if len(errs) > 0 {
					err = errors.Join(errs...)
				} else {
					res = merged
				}
			} else {
				res, err = tr.RunTraceroute(ctx, params)
			}
		}()
		ret := []any{"ok", err == nil && panicked == "", "panic", panicked, "err", errInfo(err), "has_result", res != nil, "status", status}
		runs := []runOut{}
		rtts := []int64{}
		pub := ""
		doc := map[string]any{}
		if res != nil {
			for _, r := range res.Traceroute.Runs {
				ro := runOut{Src: ipStr(r.Source.IPAddress), SPort: int(r.Source.Port), Dst: ipStr(r.Destination.IPAddress), DPort: int(r.Destination.Port),
					Hops: hopsOf(&r), RDNS: append([]string{}, r.Destination.ReverseDns...)}
				for i, h := range r.Hops {
					ro.Hops[i].Names = append([]string{}, h.ReverseDns...)
				}
				runs = append(runs, ro)
			}
			// deterministic order for the trace: by source port, then first hop address
			sort.SliceStable(runs, func(i, j int) bool { return runs[i].SPort < runs[j].SPort })
			for _, x := range res.E2eProbe.RTTs {
				rtts = append(rtts, int64(math.Round(x*1000)))
			}
			pub = res.Source.PublicIP
			doc = map[string]any{"protocol": res.Protocol, "dest_host": res.Destination.Hostname, "dest_port": res.Destination.Port,
				"hc_min": res.Traceroute.HopCount.Min, "hc_max": res.Traceroute.HopCount.Max, "sent": res.E2eProbe.PacketsSent, "recv": res.E2eProbe.PacketsReceived}
		}
		// goroutines of the repository that are still alive when the call has returned and everything has settled (they would be
		// aborted by Stop below: count first), and those that do not even end then
		synctest.Wait()
		g, sample := repoGoroutines()
		w.Stop()
		synctest.Wait()
		if g2, s2 := repoGoroutines(); g2 > g {
			g, sample = g2, s2
		}
		opened, once, bad := w.HandleSummary()
		dnsMu.Lock()
		dc := map[string]int{}
		for k, v := range dnsCalls {
			dc[k] = v
		}
		dnsMu.Unlock()
		allIDs := []string{}
		idsOf := func(r *result.Results) {
			allIDs = append(allIDs, r.TestRunID)
			for _, x := range r.Traceroute.Runs {
				allIDs = append(allIDs, x.RunID)
			}
		}
		if res != nil && rp.Via == "http" {
			idsOf(res)
			for _, b := range mixBodies {
				o := &result.Results{}
				if json.Unmarshal([]byte(b), o) == nil && o.TestRunID != "" {
					idsOf(o)
				}
			}
		}
		ret = append(ret, "all_ids", allIDs, "runs", runs, "rtts_us", rtts, "pub", pub, "doc", doc, "pub_calls", fetcher.calls, "dns_calls", dc,
			"hops", []hopOut{}, "src", "", "sport", 0, "dst", "", "dport", 0,
			"goroutines", g, "gsample", sample, "opened", opened, "closed_once", once, "bad_handles", bad, "accepts", w.Accepts,
			"flood_delivered", w.FloodDelivered, "body", truncate(body, 300), "ctype", ctype)
		w.LogEvent("Return", ret...)
		evs = w.Events()
	})
	return evs
}

func expectOf(s *Scenario) any {
	if e, ok := s.Extra["expect"]; ok {
		return e
	}
	return map[string]any{"reject": false, "min": 0, "max": 0, "addr": "", "port": 0, "kind": "none"}
}

func expect20Of(s *Scenario) any {
	if e, ok := s.Extra["expect20"]; ok {
		return e
	}
	return map[string]any{"out": "none", "dialed": false, "notsup": false, "fallback": false, "method": "", "cap": "", "fault": ""}
}

func expect17Of(s *Scenario) any {
	if e, ok := s.Extra["expect17"]; ok {
		return e
	}
	return map[string]any{"skip": false, "rdns": false, "routers": []string{}, "private": []bool{}}
}

func numExtra(s *Scenario, k string) int {
	v, _ := s.Extra[k].(float64)
	return int(v)
}

func truncate(s string, n int) string {
	if len(s) > n {
		return s[:n]
	}
	return s
}

func trimBrackets(s string) string {
	if len(s) >= 2 && s[0] == '[' && s[len(s)-1] == ']' {
		return s[1 : len(s)-1]
	}
	return s
}

func dnsAnswer(ctx context.Context, m map[string]string, addr string) ([]string, error) {
	return dnsAnswerN(ctx, m, addr, 1)
}

// dnsAnswerN: the scripted resolver's answer to the n-th lookup of addr. "a;b" = a for the first call, b afterwards;
// "+<ms>:x" = x after ms milliseconds; "!e" failure; "~" stall until the context ends; "" empty list; "n1,n2" names.
func dnsAnswerN(ctx context.Context, m map[string]string, addr string, n int) ([]string, error) {
	v, ok := m[addr]
	if !ok {
		v, ok = m["*"]
	}
	if !ok {
		return nil, &net.DNSError{Err: "no such host", Name: addr, IsNotFound: true}
	}
	if parts := strings.Split(v, ";"); len(parts) > 1 {
		if n > len(parts) {
			n = len(parts)
		}
		v = parts[n-1]
	}
	if len(v) > 0 && v[0] == '+' {
		if i := strings.IndexByte(v, ':'); i > 0 {
			ms, _ := strconv.Atoi(v[1:i])
			v = v[i+1:]
			select {
			case <-time.After(time.Duration(ms) * time.Millisecond):
			case <-ctx.Done():
				return nil, ctx.Err()
			}
		}
	}
	if len(v) > 0 && v[0] == '!' {
		return nil, errors.New("injected-dns-failure " + v[1:])
	}
	if len(v) > 0 && v[0] == '~' { // slow: blocks until the context ends, then fails (what a real resolver does)
		<-ctx.Done()
		return nil, ctx.Err()
	}
	if v == "" {
		return []string{}, nil
	}
	out := []string{}
	for _, n := range splitComma(v) {
		out = append(out, n)
	}
	return out, nil
}

func splitComma(s string) []string {
	out := []string{}
	cur := ""
	for _, c := range s {
		if c == ',' {
			out = append(out, cur)
			cur = ""
		} else {
			cur += string(c)
		}
	}
	return append(out, cur)
}

// runAlloc exercises the process-wide identifier allocators from concurrent callers.
func runAlloc(t *testing.T, s *Scenario) []wire.Event {
	w := wire.New(wire.Script{})
	num := func(k string) int { v, _ := s.Extra[k].(float64); return int(v) }
	packets.VerifSetPacketIDBase(uint32(num("pid_base")))
	icmp.VerifSetEchoIDBase(uint32(num("echo_base")))
	callers, _ := s.Extra["callers"].([]any)
	w.LogEvent("Params", "variant", "alloc", "entry", "alloc", "strict", false, "min", 0, "max", 0, "timeout_us", 0, "delay_us", 0, "poll_us", 0,
		"target", "", "port", 0, "cancel_us", 0, "filter", false, "pid_base", num("pid_base"), "echo_base", num("echo_base"))
	start := make(chan struct{})
	var wg sync.WaitGroup
	for ci, c := range callers {
		cm := c.(map[string]any)
		m, n := int(cm["m"].(float64)), int(cm["n"].(float64))
		wg.Add(1)
		go func(ci, m, n int) {
			defer wg.Done()
			<-start
			for i := 0; i < n; i++ {
				b := packets.AllocPacketID(uint8(m))
				e := icmp.VerifNextEchoID()
				w.LogEvent("Alloc", "caller", ci, "m", m, "base", int(b), "echo", int(e))
			}
		}(ci, m, n)
	}
	close(start)
	wg.Wait()
	// stress rounds: G gated goroutines allocate N blocks of M identifiers each in a tight loop (nothing is logged between two
	// allocations, so that a reserve-and-read that is not ONE atomic step has a chance to interleave); one line per round with
	// every block start handed out in it. G*N*M < 65536: all blocks of a round are live together.
	if st, ok := s.Extra["stress"].(map[string]any); ok {
		g, n, m, rounds := int(st["g"].(float64)), int(st["n"].(float64)), int(st["m"].(float64)), int(st["rounds"].(float64))
		resetBase := -1
		if v, ok := st["reset_base"].(float64); ok {
			resetBase = int(v)
		}
		for r := 0; r < rounds; r++ {
			if resetBase >= 0 { // every round starts just below the 16-bit rollover: all callers meet at the wrap
				packets.VerifSetPacketIDBase(uint32(resetBase))
			}
			got := make([][]int, g)
			gate := make(chan struct{})
			var wg2 sync.WaitGroup
			for ci := 0; ci < g; ci++ {
				wg2.Add(1)
				go func(ci int) {
					defer wg2.Done()
					loc := make([]int, n)
					<-gate
					for i := 0; i < n; i++ {
						loc[i] = int(packets.AllocPacketID(uint8(m)))
					}
					got[ci] = loc
				}(ci)
			}
			close(gate)
			wg2.Wait()
			all := []int{}
			for _, l := range got {
				all = append(all, l...)
			}
			w.LogEvent("Alloc", "caller", -1, "m", m, "base", -1, "echo", -1-r, "round", r, "bases", all)
		}
	}
	w.LogEvent("Return", "ok", true, "panic", "", "err", errInfo(nil), "has_result", false, "hops", []hopOut{}, "src", "", "sport", 0, "dst", "", "dport", 0,
		"goroutines", 0, "gsample", "", "opened", 0, "closed_once", 0, "bad_handles", []string{}, "accepts", 0)
	return w.Events()
}

// runBpfGen: G goroutines (concurrent runs) generate their capture filter programs at the same time, each for its own tuple: what
// concurrent TCP/SACK runs do when they install their filters (the race detector is the judge, check C14).
func runBpfGen(t *testing.T, s *Scenario) []wire.Event {
	num := func(k string) int { v, _ := s.Extra[k].(float64); return int(v) }
	g, n := num("g"), num("n")
	w := wire.New(wire.Script{})
	w.LogEvent("Params", "variant", "bpfgen", "entry", "bpfgen", "strict", false, "min", 0, "max", 0, "timeout_us", 0, "delay_us", 0, "poll_us", 0,
		"target", "", "port", 0, "cancel_us", 0, "filter", false, "g", g, "n", n)
	gate := make(chan struct{})
	var wg sync.WaitGroup
	bad := make([]int, g)
	for ci := 0; ci < g; ci++ {
		wg.Add(1)
		go func(ci int) {
			defer wg.Done()
			<-gate
			for i := 0; i < n; i++ {
				sport, dport := uint16(443), uint16(40000+ci*100+i%50)
				spec := packets.PacketFilterSpec{FilterType: packets.FilterTypeTCP, FilterConfig: packets.FilterConfig{
					Src: netip.AddrPortFrom(netip.AddrFrom4([4]byte{198, 51, 100, 9}), sport), Dst: netip.AddrPortFrom(netip.AddrFrom4([4]byte{10, 77, 0, 1}), dport)}}
				raw, err := packets.VerifClassicBPF(spec)
				if err != nil {
					bad[ci]++
					continue
				}
				_ = raw // (the program is not read here: a report must have the repository on both sides, see check C14)
			}
		}(ci)
	}
	close(gate)
	wg.Wait()
	w.LogEvent("Got", "op", "bpfgen", "bad", bad)
	w.LogEvent("Return", "ok", true, "panic", "", "err", errInfo(nil), "has_result", false, "hops", []hopOut{}, "src", "", "sport", 0, "dst", "", "dport", 0,
		"goroutines", 0, "gsample", "", "opened", 0, "closed_once", 0, "bad_handles", []string{}, "accepts", 0)
	return w.Events()
}
