// Package wire is the simulated network below packets.Sink / packets.Source. One Wire is shared by every
// handle the code under test opens during a scenario (AF_PACKET semantics: every capture handle sees
// every inbound packet). It records an event log that becomes the ndjson trace.
package wire

import (
	"encoding/hex"
	"errors"
	"fmt"
	"net"
	"net/netip"
	"os"
	"runtime"
	"strconv"
	"strings"
	"sync"
	"sync/atomic"
	"syscall"
	"testing/synctest"
	"time"

	"golang.org/x/net/bpf"

	"github.com/DataDog/datadog-traceroute/common"
	"github.com/DataDog/datadog-traceroute/packets"

	"vt/pkt"
)

// Event is one trace line.
type Event map[string]any

// Fault makes the k-th call (1-based) of an operation fail.
type Fault struct {
	Op    string `json:"op"`    // newsink newsource setfilter setdeadline read write close_sink close_source
	K     int    `json:"k"`     // 1-based call index, counted per handle kind across the scenario (per run when Run>0)
	Class string `json:"class"` // fatal deadline zero
	Run   int    `json:"run"`   // 0: any run; n: only the n-th run (by order of sink creation)
	With  *Reply `json:"with"`  // write faults: a reply to the PREVIOUS probe of the flow that the receiver handles while this write is failing
}

// Inject is a packet put on the wire at an absolute scenario time rather than in answer to a probe.
type Inject struct {
	AtUs   int64 `json:"at_us"`
	ForTTL int   `json:"for_ttl"` // the probe the packet is derived from (synthesised if not yet sent)
	Flow   int   `json:"flow"`    // 0-based flow index (order of first probe); default 0
	Reply
}

// Script is the environment part of a scenario.
type Script struct {
	Path        map[string][]Reply `json:"path"` // ttl -> replies; "*" default for unlisted TTLs
	Inject      []Inject           `json:"inject"`
	Faults      []Fault            `json:"faults"`
	Filter      bool               `json:"filter"`   // apply the real classic-BPF programs the code installs
	Loop        bool               `json:"loop"`     // deliver the run's own probes to the capture handles
	PerFlow     bool               `json:"per_flow"` // rewrite symbolic router addresses per flow
	FloodN      int                `json:"flood_n"`  // irrelevant packets injected per flood tick
	FloodUs     int64              `json:"flood_us"` // tick period
	FloodKind   string             `json:"flood_kind"`
	FloodAtOpen bool               `json:"flood_at_open"` // start the flood when the capture handle is opened (before any probe)
	SackPerm    bool               `json:"sack_perm"`
	SackTS      bool               `json:"sack_ts"`
	NoSynack    bool               `json:"no_synack"`
	SynackUs    int64              `json:"synack_us"`
	ISN         uint32             `json:"isn"`           // forged ack of the SYN-ACK (local initial sequence the probes build on)
	FlowDelayUs []int64            `json:"flow_delay_us"` // extra reply delay per flow index
	// Unsync: the sink shares NO state with the capture handles (the harness must not add a happens-before edge
	// between the sender and the receiver goroutine that real sockets do not have); replies are pre-seeded from a
	// template probe built from the predictable flow identity.
	WriteStallUs map[string]int64 `json:"write_stall_us"` // ttl -> how long the write of that probe blocks inside the sink (a full send buffer, a shaping qdisc)
	Realclock    bool             `json:"-"`              // set by the scenario runner
	Eager        bool             `json:"eager"`          // replies with delay 0 are handled by the receiver before WriteTo returns to the sender
	Unsync       bool             `json:"unsync"`
	TVariant     string           `json:"t_variant"`
	TEID         int              `json:"t_eid"`
	TDPort       int              `json:"t_dport"`
	TLocal       string           `json:"t_local"`
	TTarget      string           `json:"t_target"`
}

type handle struct {
	id     int
	kind   string // sink | source
	run    int    // run index by order of sink creation (1-based)
	w      *Wire
	closed int
	// source state
	queue    [][]byte
	qids     []int
	notify   chan struct{}
	deadline time.Time
	spinDl   time.Time // the deadline past which reads keep being issued
	spin     int
	filter   []bpf.Instruction
	sackDone bool
	ftype    int
	reads    int
}

// Wire is the simulated network.
type Wire struct {
	mu      sync.Mutex
	start   time.Time
	script  Script
	events  []Event
	seq     int
	handles []*handle
	runs    int
	goRun   map[uint64]int // goroutine id -> run index (sink and source are created by the same goroutine)
	counts  map[string]int // op[/run] -> calls so far
	flows   []*flowState
	pktSeq  int
	timers  []*time.Timer
	stopped bool
	// SACK
	Listener                     net.Listener
	accepted                     []net.Conn
	Accepts                      int
	sackFlow                     *Flow
	sackByPort                   map[int]*Flow
	Target                       netip.Addr
	OnProbe                      func(v pkt.View)
	ownerless                    []byte
	FloodArrived, FloodDelivered int
	Spun                         bool // a capture handle was read 3000 times past one deadline: the code under test was in a busy loop
	Millis                       bool
	seeded                       bool
	floodOn                      bool
}

type flowState struct {
	key    string
	idx    int
	fl     Flow
	first  []byte         // first probe seen (template for synthesising unsent probes)
	probes map[int][]byte // by IP TTL
}

func New(s Script) *Wire {
	w := &Wire{script: s, start: time.Now(), goRun: map[uint64]int{}, counts: map[string]int{}}
	return w
}

func goid() uint64 {
	var buf [64]byte
	n := runtime.Stack(buf[:], false)
	f := strings.Fields(string(buf[:n]))
	id, _ := strconv.ParseUint(f[1], 10, 64)
	return id
}

// nowUs is the scenario clock of the trace: microseconds, or milliseconds when Millis is set (scenarios that span hours:
// TLC integers are 32 bit).
// NowUs: the scenario clock (for events that are logged later than they happened).
func (w *Wire) NowUs() int64 { return w.nowUs() }

func (w *Wire) nowUs() int64 {
	if w.Millis {
		return time.Since(w.start).Milliseconds()
	}
	return time.Since(w.start).Microseconds()
}

// Log appends an event (caller must hold w.mu unless locked=false).
func (w *Wire) log(ev string, kv ...any) {
	w.seq++
	e := Event{"event": ev, "n": w.seq, "t": w.nowUs()}
	for i := 0; i+1 < len(kv); i += 2 {
		e[kv[i].(string)] = kv[i+1]
	}
	w.events = append(w.events, e)
}

// LogEvent is for the scenario runner (Params, Cancel, Return …).
func (w *Wire) LogEvent(ev string, kv ...any) {
	w.mu.Lock()
	defer w.mu.Unlock()
	w.log(ev, kv...)
}

func (w *Wire) Events() []Event {
	w.mu.Lock()
	defer w.mu.Unlock()
	return append([]Event(nil), w.events...)
}

// fault consumes the fault scheduled for this call of op, if any.
func (w *Wire) fault(op string, run int) (string, bool) {
	w.counts[op]++
	w.counts[op+"/"+strconv.Itoa(run)]++
	for _, f := range w.script.Faults {
		if f.Op != op {
			continue
		}
		if f.Run == 0 && w.counts[op] == f.K || f.Run != 0 && f.Run == run && w.counts[op+"/"+strconv.Itoa(run)] == f.K {
			w.log("Fault", "op", op, "k", f.K, "class", f.Class, "run", run)
			return f.Class, true
		}
	}
	return "", false
}

// SentinelFor is the distinct cause injected for (op, class).
type Sentinel struct {
	Op, Class string
	parent    error
}

func (s *Sentinel) Error() string { return "injected-" + s.Op + "-" + s.Class }
func (s *Sentinel) Unwrap() error { return s.parent }

// SentinelForRun is the cause injected into run r; it wraps SentinelFor(op).
func SentinelForRun(op string, r int) error {
	k := op + "@" + strconv.Itoa(r)
	v, _ := sentinels.LoadOrStore(k, &Sentinel{Op: k, Class: "fatal", parent: SentinelFor(op)})
	return v.(*Sentinel)
}

var sentinels sync.Map

func SentinelFor(op string) error {
	v, _ := sentinels.LoadOrStore(op, &Sentinel{Op: op, Class: "fatal"})
	return v.(*Sentinel)
}

// Install points the repository's constructor seam at this wire.
func (w *Wire) Install() {
	packets.VerifNewSink = w.newSink
	packets.VerifNewSource = w.newSource
}

func Uninstall() {
	packets.VerifNewSink = nil
	packets.VerifNewSource = nil
}

type unsyncSink struct {
	n      atomic.Int64
	closed atomic.Int32
	failAt int64 // the k-th write is refused (immutable after construction: still no state shared with the capture handles)
}

func (s *unsyncSink) WriteTo(b []byte, ap netip.AddrPort) error {
	if s.n.Add(1) == s.failAt {
		return errors.Join(SentinelFor("write"), syscall.EPERM)
	}
	return nil
}
func (s *unsyncSink) Close() error { s.closed.Add(1); return nil }

// template builds the probe the code under test will emit for ttl from the predictable flow identity.
func (w *Wire) template(ttl int, sport int, isn uint32) []byte {
	sc := w.script
	local, target := mustAddr(sc.TLocal), mustAddr(sc.TTarget)
	ip := pkt.IP{V6: local.Is6(), Src: local, Dst: target, TTL: uint8(ttl)}
	switch sc.TVariant {
	case "icmp4", "icmp6":
		m := pkt.ICMP{Type: 8, Body: []byte{byte(ttl)}}
		ip.Proto, ip.ID = 1, uint16(sc.TEID)
		if ip.V6 {
			m.Type, ip.Proto, ip.ID = 128, 58, 0
		}
		be.PutUint16(m.Rest[0:2], uint16(sc.TEID))
		be.PutUint16(m.Rest[2:4], uint16(ttl))
		return pkt.BuildIP(ip, pkt.BuildICMP(ip.V6, local, target, m))
	case "udp4", "udp6":
		ip.Proto = 17
		pl := []byte("NSMNC\x00\x00\x00")
		if ip.V6 {
			pl = make([]byte, 5+ttl)
		} else {
			ip.ID = uint16(41821 + ttl)
			ip.FlagsFO = 0x4000
		}
		return pkt.BuildIP(ip, pkt.BuildUDP(local, target, pkt.UDP{SPort: uint16(sport), DPort: uint16(sc.TDPort), Payload: pl}))
	default: // sack
		ip.Proto, ip.ID = 6, 41821
		t := pkt.TCP{SPort: uint16(sport), DPort: uint16(sc.TDPort), Seq: isn + uint32(ttl), Ack: 0x0badc0de + 1, Flags: pkt.ACK | pkt.PSH, Win: 1024, Payload: []byte{byte(ttl)}}
		return pkt.BuildIP(ip, pkt.BuildTCP(local, target, t))
	}
}

// seedUnsync schedules the scripted injections against template probes (called from the receiver side only).
func (w *Wire) seedUnsync(sport int, isn uint32) {
	if w.seeded {
		return
	}
	w.seeded = true
	fl := Flow{Local: mustAddr(w.script.TLocal), Target: mustAddr(w.script.TTarget), RemoteISN: 0x0badc0de, LocalISN: isn, TS: w.script.SackTS}
	for _, in := range w.script.Inject {
		in := in
		at := time.Duration(in.AtUs)*time.Microsecond - time.Since(w.start)
		if at < 0 {
			at = 0
		}
		enc, err := in.Reply.Encode(w.template(in.ForTTL, sport, isn), fl)
		if err != nil {
			continue
		}
		for c := 0; c <= in.Dup; c++ {
			w.after(at+time.Duration(int64(c)*in.DupUs)*time.Microsecond, enc, "inj:"+in.Tag, in.ForTTL)
		}
	}
}

func (w *Wire) newSink(addr netip.Addr) (packets.Sink, error) {
	w.mu.Lock()
	defer w.mu.Unlock()
	if w.script.Unsync {
		w.runs++
		w.goRun[goid()] = w.runs
		us := &unsyncSink{}
		for _, f := range w.script.Faults {
			if f.Op == "write" {
				us.failAt = int64(f.K)
			}
		}
		return us, nil
	}
	w.runs++
	run := w.runs
	w.goRun[goid()] = run
	if cl, ok := w.fault("newsink", run); ok {
		_ = cl
		return nil, SentinelForRun("newsink", run)
	}
	h := &handle{id: len(w.handles) + 1, kind: "sink", run: run, w: w}
	w.handles = append(w.handles, h)
	w.log("Open", "h", h.id, "kind", "sink", "run", run, "addr", addr.String())
	return (*sink)(h), nil
}

func (w *Wire) newSource() (packets.Source, error) {
	w.mu.Lock()
	defer w.mu.Unlock()
	run := w.goRun[goid()]
	if _, ok := w.fault("newsource", run); ok {
		return nil, SentinelForRun("newsource", run)
	}
	h := &handle{id: len(w.handles) + 1, kind: "source", run: run, w: w, notify: make(chan struct{}, 1)}
	w.handles = append(w.handles, h)
	w.log("Open", "h", h.id, "kind", "source", "run", run)
	if w.script.Unsync && w.script.TVariant != "sack" {
		w.seedUnsync(40000, 0)
	}
	if w.script.FloodAtOpen && w.script.FloodN > 0 && !w.floodOn {
		w.floodOn = true
		w.startFlood(&flowState{fl: Flow{Local: mustAddr(w.script.TLocal), Target: mustAddr(w.script.TTarget)}})
	}
	return (*source)(h), nil
}

type sink handle
type source handle

func (s *sink) Close() error {
	w := s.w
	w.mu.Lock()
	defer w.mu.Unlock()
	s.closed++
	w.log("Close", "h", s.id, "kind", "sink", "run", s.run, "count", s.closed)
	if _, ok := w.fault("close_sink", s.run); ok {
		return SentinelForRun("close_sink", s.run)
	}
	return nil
}

func (s *sink) WriteTo(buf []byte, ap netip.AddrPort) error {
	w := s.w
	err, eager := s.writeLocked(buf, ap)
	if len(w.script.WriteStallUs) > 0 && err == nil {
		if v := pkt.Describe(buf); w.script.WriteStallUs[strconv.Itoa(v.TTL)] > 0 {
			time.Sleep(time.Duration(w.script.WriteStallUs[strconv.Itoa(v.TTL)]) * time.Microsecond)
		}
	}
	if eager && !w.script.Realclock {
		// "eager" schedule class: the reply is on the capture handle the moment the probe leaves, and the receiver
		// goroutine handles it completely BEFORE the sending goroutine gets to run again (a very fast responder and a
		// descheduled sender). synctest.Wait returns when every other goroutine of the bubble is durably blocked.
		synctest.Wait()
	}
	_ = w
	return err
}

// ErrAborted is returned by every handle operation once the scenario has been stopped (watchdog).
var ErrAborted = errors.New("harness: scenario aborted")

func (s *sink) writeLocked(buf []byte, ap netip.AddrPort) (error, bool) {
	w := s.w
	w.mu.Lock()
	defer w.mu.Unlock()
	if w.stopped {
		return ErrAborted, false
	}
	b := append([]byte(nil), buf...)
	v := pkt.Describe(b)
	if s.closed > 0 {
		w.log("UseAfterClose", "h", s.id, "op", "write", "run", s.run)
		return os.ErrClosed, false
	}
	if cl, ok := w.fault("write", s.run); ok {
		eager := false
		for _, f := range w.script.Faults {
			if f.Op == "write" && f.With != nil && len(w.flows) > 0 {
				fs := w.flows[len(w.flows)-1]
				if prev, ok := fs.probes[v.TTL-1]; ok {
					if enc, err := w.perFlow(*f.With, fs).Encode(prev, fs.fl); err == nil {
						w.deliverLocked(enc, "onfault", v.TTL-1)
						eager = true
					}
				}
			}
		}
		if cl == "enobufs" || cl == "eperm" { // a send the kernel refused: the cause is an errno (and the sentinel, for the trace formulas)
			no := syscall.ENOBUFS
			if cl == "eperm" {
				no = syscall.EPERM
			}
			return errors.Join(SentinelForRun("write", s.run), no), eager
		}
		if cl == "typed" { // the cause carries the type the drivers use for "no packet yet": a failed write is still a failed write
			return &common.ReceiveProbeNoPktError{Err: SentinelForRun("write", s.run)}, eager
		}
		return SentinelForRun("write", s.run), eager
	}
	fs := w.flowFor(b, v)
	w.log("Send", "h", s.id, "run", s.run, "flow", fs.idx, "ttl", v.TTL, "to", ap.Addr().String(), "p", v)
	if w.OnProbe != nil {
		w.OnProbe(v)
	}
	if w.script.Loop {
		w.deliverLocked(b, "own", 0)
	}
	reps, ok := w.script.Path[strconv.Itoa(v.TTL)]
	if !ok {
		reps = w.script.Path["*"]
	}
	eager := false
	for _, r := range reps {
		if w.script.Eager && r.DelayUs == 0 {
			r2 := w.perFlow(r, fs)
			if enc, err := r2.Encode(b, fs.fl); err == nil {
				w.deliverLocked(enc, r.Tag, v.TTL)
				eager = true
				for c := 1; c <= r.Dup; c++ { // duplicates of an eagerly handled reply arrive later, as usual
					w.after(time.Duration(int64(c)*r.DupUs)*time.Microsecond, enc, r.Tag, v.TTL)
				}
			}
			continue
		}
		w.scheduleReply(fs, b, r, v.TTL)
	}
	return nil, eager
}

func flowKey(v pkt.View) string {
	switch v.Kind {
	case "echo_req":
		return fmt.Sprintf("icmp/%s/%s/%d", v.Src, v.Dst, v.EID)
	default:
		return fmt.Sprintf("%s/%s/%d/%s/%d", v.Kind, v.Src, v.SPort, v.Dst, v.DPort)
	}
}

func (w *Wire) flowFor(b []byte, v pkt.View) *flowState {
	k := flowKey(v)
	for _, f := range w.flows {
		if f.key == k {
			if _, dup := f.probes[v.TTL]; !dup {
				f.probes[v.TTL] = b
			}
			return f
		}
	}
	f := &flowState{key: k, idx: len(w.flows), first: b, probes: map[int][]byte{v.TTL: b}}
	if a, err := netip.ParseAddr(v.Src); err == nil {
		f.fl.Local = a
	}
	if a, err := netip.ParseAddr(v.Dst); err == nil {
		f.fl.Target = a
	}
	if sf, ok := w.sackByPort[v.SPort]; ok && v.Kind == "tcp" {
		f.fl.RemoteISN, f.fl.LocalISN = sf.RemoteISN, sf.LocalISN
	}
	w.flows = append(w.flows, f)
	w.scheduleInjects(f)
	if f.idx == 0 && w.script.FloodN > 0 && !w.floodOn {
		w.floodOn = true
		w.startFlood(f)
	}
	return f
}

func (w *Wire) perFlow(r Reply, f *flowState) Reply {
	if w.script.PerFlow && strings.HasPrefix(r.From, "10.") {
		// 10.<ttl>.x.y -> 10.<ttl>.<flow+1>.y so every flow has its own router addresses
		p := strings.Split(r.From, ".")
		if len(p) == 4 {
			p[2] = strconv.Itoa(f.idx + 1)
			r.From = strings.Join(p, ".")
		}
	}
	if w.script.PerFlow && strings.HasPrefix(r.From, "fd00:") {
		r.From = strings.Replace(r.From, "fd00:", fmt.Sprintf("fd00:%x:", f.idx+1), 1)
	}
	return r
}

func (w *Wire) scheduleReply(f *flowState, probe []byte, r Reply, ttl int) {
	r = w.perFlow(r, f)
	enc, err := r.Encode(probe, f.fl)
	if errors.Is(err, ErrNotApplicable) {
		return
	}
	if err != nil {
		w.log("HarnessError", "what", "encode: "+err.Error())
		return
	}
	d := r.DelayUs
	if f.idx < len(w.script.FlowDelayUs) {
		d += w.script.FlowDelayUs[f.idx]
	}
	for c := 0; c <= r.Dup; c++ {
		w.after(time.Duration(d+int64(c)*r.DupUs)*time.Microsecond, enc, r.Tag, ttl)
	}
}

func (w *Wire) after(d time.Duration, b []byte, tag string, ttl int) {
	t := time.AfterFunc(d, func() {
		w.mu.Lock()
		defer w.mu.Unlock()
		if w.stopped {
			return
		}
		w.deliverLocked(b, tag, ttl)
	})
	w.timers = append(w.timers, t)
}

// synthProbe derives the probe for ttl from the first probe of the flow using the documented
// per-variant identifier schemes (used only to build packets about probes not sent yet).
func synthProbe(first []byte, ttl int) []byte {
	ip, pl, err := pkt.ParseIP(first)
	if err != nil {
		return nil
	}
	d := ttl - int(ip.TTL)
	l4 := append([]byte(nil), pl...)
	switch ip.Proto {
	case 1: // echo seq = ttl
		if len(l4) >= 8 {
			be.PutUint16(l4[6:8], uint16(int(be.Uint16(l4[6:8]))+d))
			if len(l4) > 8 {
				l4[8] = byte(ttl)
			}
		}
	case 58:
		if len(l4) >= 8 {
			be.PutUint16(l4[6:8], uint16(int(be.Uint16(l4[6:8]))+d))
		}
	case 17:
		if ip.V6 { // payload length = 5 + ttl
			n := len(l4) + d
			for len(l4) < n {
				l4 = append(l4, 'N')
			}
			if n >= 8 {
				l4 = l4[:n]
			}
		} else {
			ip.ID = uint16(int(ip.ID) + d)
		}
	case 6:
		if len(l4) >= 20 && l4[13]&pkt.SYN != 0 {
			ip.ID = uint16(int(ip.ID) + d) // default mode: base + ttl
		} else if len(l4) >= 20 {
			be.PutUint32(l4[4:8], uint32(int64(be.Uint32(l4[4:8]))+int64(d))) // sack: seq = isn + ttl
		}
	}
	ip.TTL = uint8(ttl)
	return pkt.BuildIP(ip, l4)
}

func (w *Wire) scheduleInjects(f *flowState) {
	for _, in := range w.script.Inject {
		if in.Flow != f.idx {
			continue
		}
		in := in
		at := time.Duration(in.AtUs)*time.Microsecond - time.Since(w.start)
		if at < 0 {
			at = 0
		}
		t := time.AfterFunc(at, func() {
			w.mu.Lock()
			defer w.mu.Unlock()
			if w.stopped {
				return
			}
			var enc []byte
			if in.Form == "raw" {
				enc, _ = hex.DecodeString(in.Raw)
			} else {
				probe, ok := f.probes[in.ForTTL]
				if !ok {
					probe = synthProbe(f.first, in.ForTTL)
				}
				var err error
				enc, err = w.perFlow(in.Reply, f).Encode(probe, f.fl)
				if errors.Is(err, ErrNotApplicable) {
					return
				}
				if err != nil {
					w.log("HarnessError", "what", "inject encode: "+err.Error())
					return
				}
			}
			for c := 0; c <= in.Dup; c++ {
				w.deliverLocked(enc, "inj:"+in.Tag, in.ForTTL)
			}
		})
		w.timers = append(w.timers, t)
	}
}

// startFlood injects FloodN irrelevant packets every FloodUs until the wire is stopped.
func (w *Wire) startFlood(f *flowState) {
	period := time.Duration(w.script.FloodUs) * time.Microsecond
	if period <= 0 {
		period = time.Millisecond
	}
	var tick func()
	n := 0
	tick = func() {
		w.mu.Lock()
		defer w.mu.Unlock()
		if w.stopped {
			return
		}
		for i := 0; i < w.script.FloodN; i++ {
			n++
			var b []byte
			switch w.script.FloodKind {
			case "junk":
				b = []byte{0x45, 0, 0, byte(n), 1, 2, 3}
			case "synack_other": // SYN-ACKs of OTHER connections from the same target ip:port (sibling runs, other clients)
				tp := uint16(w.script.TDPort)
				if tp == 0 {
					tp = 33434
				}
				ip := pkt.IP{Src: f.fl.Target, Dst: f.fl.Local, TTL: 60, Proto: 6}
				b = pkt.BuildIP(ip, pkt.BuildTCP(ip.Src, ip.Dst, pkt.TCP{SPort: tp, DPort: uint16(2000 + n%3000), Flags: pkt.SYN | pkt.ACK, Seq: uint32(n), Ack: 77, Options: []byte{2, 4, 5, 0xb4, 4, 2}}))
			case "foreign_tcp":
				ip := pkt.IP{Src: mustAddr("192.0.2.50"), Dst: f.fl.Local, TTL: 60, Proto: 6}
				if f.fl.Local.Is6() {
					ip.V6, ip.Src = true, mustAddr("2001:db8:f::50")
				}
				b = pkt.BuildIP(ip, pkt.BuildTCP(ip.Src, ip.Dst, pkt.TCP{SPort: 443, DPort: uint16(1024 + n%5000), Flags: pkt.ACK, Seq: uint32(n)}))
			default: // a time-exceeded about somebody else's flow
				r := Reply{Form: "te", From: "192.0.2.51", Mods: NumMap{"q_dport": 9, "q_eid": 7, "q_sport": 9}, ModsS: StrMap{}}
				if f.fl.Local.Is6() {
					r.From = "2001:db8:f::51"
				}
				b, _ = r.Encode(f.first, f.fl)
			}
			w.deliverLocked(b, "flood", 0)
		}
		time.AfterFunc(period, tick) // (not recorded: tick checks w.stopped itself)
	}
	time.AfterFunc(period, tick)
}

// InjectRaw delivers bytes now (used by runners that drive the wire directly).
func (w *Wire) InjectRaw(b []byte, tag string) {
	w.mu.Lock()
	defer w.mu.Unlock()
	w.deliverLocked(b, tag, 0)
}

// deliverLocked offers a packet to every open capture handle (subject to its installed filter).
func (w *Wire) deliverLocked(b []byte, tag string, forTTL int) {
	id := 0
	if tag == "flood" {
		// flood packets are irrelevant by construction; they are counted, not logged one by one
		w.FloodArrived++
	} else {
		w.pktSeq++
		id = w.pktSeq
		v := pkt.Describe(b)
		w.log("Arrive", "pkt", id, "tag", tag, "for_ttl", forTTL, "d", v)
	}
	for _, h := range w.handles {
		if h.kind != "source" || h.closed > 0 {
			continue
		}
		if w.script.Filter && h.filter != nil {
			if !runFilter(h.filter, b) {
				if id != 0 {
					w.log("Filtered", "pkt", id, "h", h.id, "run", h.run, "ftype", h.ftype)
				}
				continue
			}
		}
		h.queue = append(h.queue, b)
		h.qids = append(h.qids, id)
		select {
		case h.notify <- struct{}{}:
		default:
		}
	}
}

func runFilter(prog []bpf.Instruction, ipb []byte) bool {
	vm, err := bpf.NewVM(prog)
	if err != nil {
		panic("harness: bpf.NewVM: " + err.Error())
	}
	eth := make([]byte, 14, 14+len(ipb))
	if len(ipb) > 0 && ipb[0]>>4 == 6 {
		eth[12], eth[13] = 0x86, 0xdd
	} else {
		eth[12], eth[13] = 0x08, 0x00
	}
	n, err := vm.Run(append(eth, ipb...))
	return err == nil && n > 0
}

func (s *source) SetReadDeadline(t time.Time) error {
	w := s.w
	w.mu.Lock()
	defer w.mu.Unlock()
	if s.closed > 0 {
		w.log("UseAfterClose", "h", s.id, "op", "setdeadline", "run", s.run)
		return os.ErrClosed
	}
	if _, ok := w.fault("setdeadline", s.run); ok {
		return SentinelForRun("setdeadline", s.run)
	}
	s.deadline = t
	return nil
}

func (s *source) SetPacketFilter(spec packets.PacketFilterSpec) error {
	w := s.w
	// the program is generated OUTSIDE the wire's lock, as each real capture handle does for itself: the harness must not
	// serialise the filter generation of concurrent runs (it would hide unsynchronised shared state in it)
	var raw []bpf.RawInstruction
	var gerr error
	if spec.FilterType != packets.FilterTypeNone {
		raw, gerr = packets.VerifClassicBPF(spec)
	}
	w.mu.Lock()
	defer w.mu.Unlock()
	if s.closed > 0 {
		w.log("UseAfterClose", "h", s.id, "op", "setfilter", "run", s.run)
		return os.ErrClosed
	}
	w.log("SetFilter", "h", s.id, "run", s.run, "ftype", int(spec.FilterType),
		"fsrc", spec.FilterConfig.Src.String(), "fdst", spec.FilterConfig.Dst.String())
	if _, ok := w.fault("setfilter", s.run); ok {
		return SentinelForRun("setfilter", s.run)
	}
	s.ftype = int(spec.FilterType)
	if spec.FilterType == packets.FilterTypeNone {
		s.filter = nil
		return nil
	}
	if gerr != nil {
		return fmt.Errorf("SetPacketFilter failed to get BPF filter program: %w", gerr)
	}
	ins, _ := bpf.Disassemble(raw)
	s.filter = ins
	// attach-and-drain: whatever was queued before the new filter took effect is discarded
	if w.script.Filter {
		s.queue, s.qids = nil, nil
	}
	return nil
}

func (s *source) Close() error {
	w := s.w
	w.mu.Lock()
	defer w.mu.Unlock()
	s.closed++
	w.log("Close", "h", s.id, "kind", "source", "run", s.run, "count", s.closed)
	select {
	case s.notify <- struct{}{}:
	default:
	}
	if _, ok := w.fault("close_source", s.run); ok {
		return SentinelForRun("close_source", s.run)
	}
	return nil
}

var errDeadline = &os.PathError{Op: "read", Path: "afpacket", Err: os.ErrDeadlineExceeded}

func (s *source) Read(buf []byte) (int, error) {
	w := s.w
	first := true
	for {
		w.mu.Lock()
		if w.stopped {
			w.mu.Unlock()
			return 0, ErrAborted
		}
		if s.closed > 0 {
			w.log("UseAfterClose", "h", s.id, "op", "read", "run", s.run)
			w.mu.Unlock()
			return 0, os.ErrClosed
		}
		if first {
			first = false
			s.reads++
			if cl, ok := w.fault("read", s.run); ok {
				w.mu.Unlock()
				switch cl {
				case "deadline":
					return 0, errDeadline
				case "zero":
					return 0, nil
				}
				return 0, SentinelForRun("read", s.run)
			}
			w.sackAccept(s)
		}
		if len(s.queue) > 0 {
			b, id := s.queue[0], s.qids[0]
			s.queue, s.qids = s.queue[1:], s.qids[1:]
			n := copy(buf, b)
			if id != 0 {
				w.log("Deliver", "pkt", id, "h", s.id, "run", s.run, "trunc", n < len(b))
			} else {
				w.FloodDelivered++
			}
			w.mu.Unlock()
			return n, nil
		}
		// the "deadline passed, nothing readable" verdict and its log line are taken under the lock that guards the queue:
		// the log order is the order in which the handle's state changed (an arrival logged before a Deadline line was
		// really not readable... never: it would have been read above)
		dl := s.deadline
		if !dl.IsZero() && time.Until(dl) <= 0 {
			// a caller that keeps reading past ONE deadline without ever setting a new one is in a busy loop (nothing can ever
			// arrive for it): after 3000 such reads the harness ends the loop with a fatal error and marks the scenario as spun
			if s.spinDl.Equal(dl) {
				s.spin++
			} else {
				s.spinDl, s.spin = dl, 0
			}
			if s.spin > 3000 {
				if !w.Spun {
					w.log("Spin", "h", s.id, "run", s.run)
				}
				w.Spun = true
				w.mu.Unlock()
				return 0, errors.New("harness: busy loop - 3000 reads past one read deadline")
			}
			if s.spin < 20 {
				w.log("Deadline", "h", s.id, "run", s.run)
			}
			w.mu.Unlock()
			return 0, errDeadline
		}
		w.mu.Unlock()
		if !dl.IsZero() {
			t := time.NewTimer(time.Until(dl))
			select {
			case <-s.notify:
				t.Stop()
			case <-t.C:
			}
		} else {
			<-s.notify
		}
	}
}

// sackAccept forges the SYN-ACK of every connection pending on the harness listener the first time a capture
// handle reads (the code under test dials before it reads the handshake, so its connection is already in the
// accept queue). Concurrent runs get initial sequence numbers 1000 apart.
func (w *Wire) sackAccept(s *source) {
	if w.Listener == nil || s.sackDone {
		return
	}
	s.sackDone = true
	type dl interface{ SetDeadline(time.Time) error }
	for {
		w.Listener.(dl).SetDeadline(time.Now().Add(2 * time.Millisecond))
		c, err := w.Listener.Accept()
		if err != nil {
			return
		}
		w.accepted = append(w.accepted, c)
		w.Accepts++
		ra := c.RemoteAddr().(*net.TCPAddr).AddrPort()
		la := c.LocalAddr().(*net.TCPAddr).AddrPort()
		fl := &Flow{Local: ra.Addr().Unmap(), Target: la.Addr().Unmap(), RemoteISN: 0x0badc0de, LocalISN: w.script.ISN + uint32(1000*(w.Accepts-1)), TS: w.script.SackTS}
		if w.sackFlow == nil {
			w.sackFlow = fl
		}
		if w.sackByPort == nil {
			w.sackByPort = map[int]*Flow{}
		}
		w.sackByPort[int(ra.Port())] = fl
		w.log("Accept", "lport", int(ra.Port()), "local", fl.Local.String(), "isn", pkt.U32(fl.LocalISN))
		if w.script.Unsync {
			w.seedUnsync(int(ra.Port()), fl.LocalISN)
		}
		if w.script.NoSynack {
			continue
		}
		t := pkt.TCP{SPort: la.Port(), DPort: ra.Port(), Seq: fl.RemoteISN, Ack: fl.LocalISN, Flags: pkt.SYN | pkt.ACK, Win: 65535}
		t.Options = []byte{2, 4, 0xff, 0xd7}
		if w.script.SackPerm {
			t.Options = append(t.Options, 4, 2)
		}
		if w.script.SackTS {
			t.Options = append(t.Options, 8, 10, 0, 0, 0x10, 0, 0, 0, 0x20, 0)
		}
		b := pkt.BuildIP(pkt.IP{Src: fl.Target, Dst: fl.Local, TTL: 64, Proto: 6}, pkt.BuildTCP(fl.Target, fl.Local, t))
		if w.script.SynackUs > 0 {
			w.after(time.Duration(w.script.SynackUs)*time.Microsecond, b, "synack", 0)
		} else {
			w.deliverLocked(b, "synack", 0)
		}
	}
}

// SetISN sets the initial sequence number the forged SYN-ACK acknowledges.
func (w *Wire) SetISN(v uint32) { w.script.ISN = v }

// Stop cancels pending deliveries and closes harness-side sockets.
func (w *Wire) Stop() {
	w.mu.Lock()
	defer w.mu.Unlock()
	w.stopped = true
	for _, t := range w.timers {
		t.Stop()
	}
	for _, h := range w.handles {
		if h.kind == "source" {
			select {
			case h.notify <- struct{}{}:
			default:
			}
		}
	}
	for _, c := range w.accepted {
		c.Close()
	}
	if w.Listener != nil {
		w.Listener.Close()
	}
}

// Handles summarises handle bookkeeping for the Return event.
func (w *Wire) HandleSummary() (opened, closedOnce int, bad []string) {
	w.mu.Lock()
	defer w.mu.Unlock()
	bad = []string{}
	for _, h := range w.handles {
		opened++
		if h.closed == 1 {
			closedOnce++
		} else {
			bad = append(bad, fmt.Sprintf("%s#%d closed %d times", h.kind, h.id, h.closed))
		}
	}
	return
}

var _ = errors.New
