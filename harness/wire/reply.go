package wire

import (
	"encoding/binary"
	"encoding/json"
	"errors"
	"fmt"
	"net/netip"

	"vt/pkt"
)

var be = binary.BigEndian

// Reply describes one packet the simulated network sends in answer to a probe (or injects as noise),
// relative to the probe's actual bytes.
type Reply struct {
	Form    string   `json:"form"`     // te du_port du_host du_admin echo synack rst rstack sack ack_nosack icmp_other raw
	From    string   `json:"from"`     // responder address (literal, or symbolic: TARGET, LOCAL)
	DelayUs int64    `json:"delay_us"` // after the probe was written
	Quote   string   `json:"quote"`    // "" / "28": header + 8 bytes; "full"; "ext": RFC 4884 padded quote + extension
	IPOpt   int      `json:"ipopt"`    // outer IPv4 option bytes (NOPs), 0/4/40
	HBH     bool     `json:"hbh"`      // outer IPv6 header followed by a hop-by-hop options header (PadN)
	Mapped6 bool     `json:"mapped6"`  // an IPv4 ICMP reply (echo reply / error) re-expressed as an IPv6 packet between the IPv4-MAPPED addresses (::ffff:a.b.c.d)
	Ext6    string   `json:"ext6"`     // outer IPv6 header followed by another extension header: "dst" (destination options, 60) | "rt" (routing, 43)
	QTTL    int      `json:"qttl"`     // 0: rewrite quoted TTL to 1 (what routers see); n>0: that value; -1: keep
	QCsum   string   `json:"qcsum"`    // "" fix | "zero" | "keep"
	QTOS    int      `json:"qtos"`     // 0 keep, else rewritten
	Mods    NumMap   `json:"mods"`     // numeric perturbations (set value)
	ModsD   NumMap   `json:"mods_d"`   // numeric perturbations (delta on the genuine value)
	ModsS   StrMap   `json:"mods_s"`   // address perturbations
	Extra   []int    `json:"extra"`    // sack: further TTLs whose blocks are also reported
	Desc    bool     `json:"desc"`     // sack: list blocks in descending order
	Raw     string   `json:"raw"`      // form raw: hex bytes
	Dup     int      `json:"dup"`      // extra copies
	DupUs   int64    `json:"dup_us"`   // spacing of the copies
	Tag     string   `json:"tag"`      // free label copied to the trace
	Patch   [][2]int `json:"patch"`    // junk: byte patches (offset from the IP header, value) applied after encoding
	Trunc   int      `json:"trunc"`    // junk: keep only the first n bytes (0 = keep all; n is clamped to len-1)
	Append  int      `json:"append"`   // junk: append n garbage bytes
}

// NumMap / StrMap accept the "[]" that TLC's Json module emits for an empty function.
type NumMap map[string]int64
type StrMap map[string]string

func (m *NumMap) UnmarshalJSON(b []byte) error {
	if len(b) > 0 && b[0] == '[' {
		*m = NumMap{}
		return nil
	}
	var x map[string]int64
	if err := json.Unmarshal(b, &x); err != nil {
		return err
	}
	*m = x
	return nil
}
func (m *StrMap) UnmarshalJSON(b []byte) error {
	if len(b) > 0 && b[0] == '[' {
		*m = StrMap{}
		return nil
	}
	var x map[string]string
	if err := json.Unmarshal(b, &x); err != nil {
		return err
	}
	*m = x
	return nil
}

// ErrNotApplicable: the reply form makes no sense for this probe (e.g. a SYN-ACK to an ICMP echo); nothing is sent.
var ErrNotApplicable = errors.New("reply form not applicable to this probe")

// Flow is what the wire knows about the run that emitted a probe.
type Flow struct {
	Local, Target netip.Addr
	// SACK connection state as forged in the SYN-ACK
	RemoteISN uint32
	LocalISN  uint32 // value of the forged ack: probes carry seq = LocalISN + ttl
	TS        bool   // TCP timestamps were negotiated in the handshake: every later segment of the target carries the option
}

func mustAddr(s string) netip.Addr {
	a, err := netip.ParseAddr(s)
	if err != nil {
		panic(fmt.Sprintf("harness: bad address %q", s))
	}
	return a
}

func (r Reply) mod(k string, def int64) int64 {
	if v, ok := r.Mods[k]; ok {
		return v
	}
	if v, ok := r.ModsD[k]; ok {
		return def + v
	}
	return def
}
func (r Reply) modA(k string, def netip.Addr) netip.Addr {
	if v, ok := r.ModsS[k]; ok {
		return mustAddr(v)
	}
	return def
}

// Encode builds the reply bytes for the given probe and applies the junk transformations.
func (r Reply) Encode(probe []byte, fl Flow) ([]byte, error) {
	b, err := r.encode(probe, fl)
	if err != nil {
		return nil, err
	}
	if r.Mapped6 {
		if b, err = mapTo6(b); err != nil {
			return nil, err
		}
	}
	if (r.Ext6 == "dst" || r.Ext6 == "rt") && len(b) >= 40 && b[0]>>4 == 6 {
		n := make([]byte, 0, len(b)+8)
		n = append(n, b[:40]...)
		if r.Ext6 == "dst" {
			n = append(n, b[6], 0, 1, 4, 0, 0, 0, 0) // next header, length 0, PadN
			n[6] = 60
		} else {
			n = append(n, b[6], 0, 0, 0, 0, 0, 0, 0) // routing header type 0, segments left 0 (to be ignored)
			n[6] = 43
		}
		n = append(n, b[40:]...)
		pl := int(n[4])<<8 | int(n[5])
		n[4], n[5] = byte((pl+8)>>8), byte(pl+8)
		b = n
	}
	if r.HBH && len(b) >= 40 && b[0]>>4 == 6 {
		n := make([]byte, 0, len(b)+8)
		n = append(n, b[:40]...)
		n = append(n, b[6], 0, 1, 4, 0, 0, 0, 0) // next header, length 0 (8 bytes), PadN of 6 bytes
		n = append(n, b[40:]...)
		n[6] = 0 // hop-by-hop
		pl := int(n[4])<<8 | int(n[5])
		n[4], n[5] = byte((pl+8)>>8), byte(pl+8)
		b = n
	}
	for _, p := range r.Patch {
		if p[0] >= 0 && p[0] < len(b) {
			b[p[0]] = byte(p[1])
		}
	}
	if r.Trunc > 0 {
		n := r.Trunc
		if n > len(b)-1 {
			n = len(b) - 1
		}
		b = b[:n]
	}
	for i := 0; i < r.Append; i++ {
		b = append(b, byte(0xa5^i))
	}
	return b, nil
}

func (r Reply) encode(probe []byte, fl Flow) ([]byte, error) {
	pip, ppl, err := pkt.ParseIP(probe)
	if err != nil {
		return nil, fmt.Errorf("probe undecodable: %w", err)
	}
	from := fl.Target
	switch r.From {
	case "", "TARGET":
	case "LOCAL":
		from = fl.Local
	default:
		from = mustAddr(r.From)
	}
	odst := r.modA("o_dst", pip.Src)
	outer := pkt.IP{V6: pip.V6, Src: from, Dst: odst, TTL: 61, ID: uint16(r.mod("o_ipid", 0x1234))}
	if r.IPOpt > 0 && !pip.V6 {
		outer.Options = make([]byte, r.IPOpt)
		for i := range outer.Options {
			outer.Options[i] = 1 // NOP
		}
	}
	icmpProto := uint8(1)
	if pip.V6 {
		icmpProto = 58
	}
	switch r.Form {
	case "te", "du_port", "du_host", "du_admin", "icmp_other", "te_reass":
		var typ, code uint8
		switch r.Form {
		case "te":
			typ, code = 11, 0
			if pip.V6 {
				typ, code = 3, 0
			}
		case "te_reass": // time exceeded in reassembly: not a TTL-exceeded
			typ, code = 11, 1
			if pip.V6 {
				typ, code = 3, 1
			}
		case "du_port":
			typ, code = 3, 3
			if pip.V6 {
				typ, code = 1, 4
			}
		case "du_host":
			typ, code = 3, 1
			if pip.V6 {
				typ, code = 1, 3
			}
		case "du_admin":
			typ, code = 3, 13
			if pip.V6 {
				typ, code = 1, 1
			}
		case "icmp_other": // redirect / parameter problem: carries a quote but proves nothing
			typ, code = 5, 1
			if pip.V6 {
				typ, code = 4, 0
			}
		}
		typ, code = uint8(r.mod("itype", int64(typ))), uint8(r.mod("icode", int64(code)))
		q := r.buildQuote(pip, ppl)
		m := pkt.ICMP{Type: typ, Code: code, Body: q}
		if r.Quote == "ext" {
			// RFC 4884: original datagram padded to 128 bytes, length in 32-bit words (v4: byte 5; v6: 64-bit words in byte 4)
			for len(q) < 128 {
				q = append(q, 0)
			}
			q = q[:128]
			if pip.V6 {
				m.Rest[0] = 128 / 8
			} else {
				m.Rest[1] = 128 / 4
			}
			ext := []byte{0x20, 0, 0, 0, 0, 8, 1, 1, 0, 0x10, 0x01, 0x01} // header + one MPLS label stack object
			be.PutUint16(ext[2:4], pkt.Csum(ext, 0))
			m.Body = append(q, ext...)
		}
		outer.Proto = icmpProto
		return pkt.BuildIP(outer, pkt.BuildICMP(pip.V6, outer.Src, outer.Dst, m)), nil
	case "echo":
		if pip.Proto != 1 && pip.Proto != 58 {
			return nil, ErrNotApplicable
		}
		pm, err := pkt.ParseICMP(pip, ppl)
		if err != nil {
			return nil, err
		}
		m := pkt.ICMP{Type: 0, Body: pm.Body}
		if pip.V6 {
			m.Type = 129
		}
		m.Type = uint8(r.mod("itype", int64(m.Type)))
		be.PutUint16(m.Rest[0:2], uint16(r.mod("eid", int64(pm.EchoID()))))
		be.PutUint16(m.Rest[2:4], uint16(r.mod("eseq", int64(pm.EchoSeq()))))
		outer.Proto = icmpProto
		return pkt.BuildIP(outer, pkt.BuildICMP(pip.V6, outer.Src, outer.Dst, m)), nil
	case "synack", "rst", "rstack", "sack", "ack_nosack", "tcp_flags":
		if pip.Proto != 6 {
			return nil, ErrNotApplicable
		}
		pt, err := pkt.ParseTCP(pip, ppl)
		if err != nil {
			return nil, err
		}
		t := pkt.TCP{SPort: pt.DPort, DPort: pt.SPort, Win: 65535}
		switch r.Form {
		case "synack":
			t.Flags = pkt.SYN | pkt.ACK
			t.Seq, t.Ack = 0x51515151, pt.Seq+1
			t.Options = []byte{2, 4, 5, 0xb4}
		case "rst":
			t.Flags = pkt.RST
			t.Seq, t.Ack = 0, 0
		case "rstack":
			t.Flags = pkt.RST | pkt.ACK
			t.Seq, t.Ack = 0, pt.Seq+1
		case "tcp_flags":
			t.Seq, t.Ack = 0x51515151, pt.Seq+1
		case "sack", "ack_nosack":
			t.Flags = pkt.ACK
			t.Seq, t.Ack = fl.RemoteISN+1, fl.LocalISN
			if r.Form == "sack" {
				ttls := append([]int{int(pt.Seq - fl.LocalISN)}, r.Extra...)
				if r.Desc {
					for i, j := 0, len(ttls)-1; i < j; i, j = i+1, j-1 {
						ttls[i], ttls[j] = ttls[j], ttls[i]
					}
				}
				opt := []byte{1, 1, 5, byte(2 + 8*len(ttls))}
				for _, tt := range ttls {
					left := fl.LocalISN + uint32(tt)
					e := make([]byte, 8)
					be.PutUint32(e[0:4], left)
					be.PutUint32(e[4:8], left+uint32(r.mod("sack_width", 1))) // width 0: a block that acknowledges nothing
					opt = append(opt, e...)
				}
				if _, ok := r.ModsD["sack_left"]; ok || r.Mods["sack_left"] != 0 { // move the first block
					v := uint32(r.mod("sack_left", int64(be.Uint32(opt[4:8]))))
					be.PutUint32(opt[4:8], v)
					be.PutUint32(opt[8:12], v+uint32(r.mod("sack_width", 1)))
				}
				if n := int(r.mod("sack_trim", 0)); n > 0 && len(opt) >= 4+n { // a SACK option whose data is not a multiple of 8 bytes
					opt = opt[:len(opt)-n]
					opt[3] = byte(len(opt) - 2)
					for len(opt)%4 != 0 {
						opt = append(opt, 1)
					}
				}
				t.Options = opt
			}
			if fl.TS { // RFC 7323: TSval advances with the target's clock (here: with the probe answered), TSecr echoes ours
				ts := make([]byte, 12)
				ts[0], ts[1], ts[2], ts[3] = 1, 1, 8, 10
				be.PutUint32(ts[4:8], 0x10000000+100*uint32(pt.Seq-fl.LocalISN))
				be.PutUint32(ts[8:12], 0x20000000)
				t.Options = append(ts, t.Options...)
			}
		}
		t.Flags = uint8(r.mod("flags", int64(t.Flags)))
		t.SPort = uint16(r.mod("sport", int64(t.SPort)))
		t.DPort = uint16(r.mod("dport", int64(t.DPort)))
		t.Ack = uint32(r.mod("ack", int64(t.Ack)))
		t.Seq = uint32(r.mod("seq", int64(t.Seq)))
		outer.Proto = 6
		return pkt.BuildIP(outer, pkt.BuildTCP(outer.Src, outer.Dst, t)), nil
	}
	return nil, fmt.Errorf("unknown reply form %q", r.Form)
}

// buildQuote returns the quoted original datagram as a router would embed it.
func (r Reply) buildQuote(pip pkt.IP, ppl []byte) []byte {
	l4 := append([]byte(nil), ppl...)
	qip := pip
	switch {
	case r.QTTL == 0:
		qip.TTL = 1
	case r.QTTL > 0:
		qip.TTL = uint8(r.QTTL)
	}
	if r.QTOS != 0 {
		qip.TOS = uint8(r.QTOS)
	}
	qip.Src = r.modA("q_src", pip.Src)
	qip.Dst = r.modA("q_dst", pip.Dst)
	qip.ID = uint16(r.mod("q_ipid", int64(pip.ID)))
	qip.Proto = uint8(r.mod("q_proto", int64(pip.Proto)))
	put16 := func(off int, k string) {
		if len(l4) >= off+2 {
			be.PutUint16(l4[off:], uint16(r.mod(k, int64(be.Uint16(l4[off:])))))
		}
	}
	put32 := func(off int, k string) {
		if len(l4) >= off+4 {
			be.PutUint32(l4[off:], uint32(r.mod(k, int64(be.Uint32(l4[off:])))))
		}
	}
	switch pip.Proto {
	case 6:
		put16(0, "q_sport")
		put16(2, "q_dport")
		put32(4, "q_seq")
	case 17:
		put16(0, "q_sport")
		put16(2, "q_dport")
		if !pip.V6 {
			put16(4, "q_ulen")
		}
	case 1, 58:
		put16(4, "q_eid")
		put16(6, "q_eseq")
	}
	keep := len(l4)
	if r.Quote == "" || r.Quote == "28" {
		if keep > 8 {
			keep = 8
		}
	}
	if v, ok := r.Mods["q_l4"]; ok && int(v) < keep {
		keep = int(v)
	}
	// serialise the quoted header with the ORIGINAL stated length (not the truncated one)
	full := pkt.BuildIP(qip, l4)
	if pip.V6 {
		be.PutUint16(full[4:6], uint16(r.mod("q_ulen", int64(be.Uint16(full[4:6])))))
	} else {
		switch r.QCsum {
		case "zero":
			full[10], full[11] = 0, 0
		case "keep": // checksum of the header as sent (stale after the TTL rewrite)
			orig := pkt.BuildIP(pip, l4)
			full[10], full[11] = orig[10], orig[11]
		}
	}
	hl := qip.HdrLen
	if hl == 0 {
		hl = 20
		if pip.V6 {
			hl = 40
		}
	}
	return full[:hl+keep]
}

// mapTo6 re-expresses an IPv4 ICMP packet (echo reply, or an error with its quote) as the IPv6 packet a confused translator would
// emit: every address becomes its IPv4-mapped form, ICMP becomes ICMPv6 with the corresponding type.
func mapTo6(b []byte) ([]byte, error) {
	ip, pl, err := pkt.ParseIP(b)
	if err != nil || ip.V6 || ip.Proto != 1 {
		return nil, ErrNotApplicable
	}
	m, err := pkt.ParseICMP(ip, pl)
	if err != nil {
		return nil, err
	}
	m6 := func(a netip.Addr) netip.Addr { return netip.AddrFrom16(a.As16()) }
	hdr6 := func(h pkt.IP, l4 []byte, l4len int) []byte {
		proto := h.Proto
		if proto == 1 {
			proto = 58
		}
		x := pkt.BuildIP(pkt.IP{V6: true, Src: m6(h.Src), Dst: m6(h.Dst), Proto: proto, TTL: h.TTL}, l4)
		be.PutUint16(x[4:6], uint16(l4len))
		return x
	}
	out := pkt.ICMP{Rest: m.Rest}
	switch m.Type {
	case 0:
		out.Type, out.Body = 129, m.Body
	case 11, 3:
		out.Type = 3
		if m.Type == 3 {
			out.Type, out.Code = 1, 4
		}
		qip, ql4, err := pkt.ParseIP(m.Body)
		if err != nil || qip.V6 {
			return nil, ErrNotApplicable
		}
		l4 := append([]byte(nil), ql4...)
		if qip.Proto == 1 && len(l4) > 0 && l4[0] == 8 {
			l4[0] = 128
		}
		out.Rest = [4]byte{}
		out.Body = hdr6(qip, l4, qip.TotLen-qip.HdrLen)
	default:
		return nil, ErrNotApplicable
	}
	src, dst := m6(ip.Src), m6(ip.Dst)
	return pkt.BuildIP(pkt.IP{V6: true, Src: src, Dst: dst, Proto: 58, TTL: ip.TTL}, pkt.BuildICMP(true, src, dst, out)), nil
}
