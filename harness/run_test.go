package vt

import (
	"bufio"
	"context"
	"encoding/json"
	"errors"
	"flag"
	"fmt"
	"math"
	"net"
	"net/netip"
	"os"
	"runtime"
	"strings"
	"sync"
	"testing"
	"testing/synctest"
	"time"

	"github.com/DataDog/datadog-traceroute/common"
	"github.com/DataDog/datadog-traceroute/icmp"
	rlog "github.com/DataDog/datadog-traceroute/log"
	"github.com/DataDog/datadog-traceroute/packets"
	"github.com/DataDog/datadog-traceroute/result"
	"github.com/DataDog/datadog-traceroute/sack"
	"github.com/DataDog/datadog-traceroute/tcp"
	"github.com/DataDog/datadog-traceroute/udp"

	"vt/wire"
)

var (
	flagIn   = flag.String("vt.in", "", "scenario file (ndjson)")
	flagOut  = flag.String("vt.out", "", "trace file (ndjson)")
	flagSkip = flag.Int("vt.skip", 0, "skip the first n scenarios")
)

// Scenario is one execution of a real entry point over a scripted environment.
type Scenario struct {
	ID        string  `json:"id"`
	Twin      string  `json:"twin"`    // id of the noise-free twin scenario that ran directly before
	Kind      string  `json:"kind"`    // wire (default) | engine | multi | ...
	Variant   string  `json:"variant"` // icmp4 icmp6 udp4 udp6 tcp tcp_paris sack
	Entry     string  `json:"entry"`   // proto (default) | run | http
	Strict    bool    `json:"strict"`
	Min       int     `json:"min"`
	Max       int     `json:"max"`
	TimeoutMs int     `json:"timeout_ms"`
	DelayMs   int     `json:"delay_ms"`
	PollMs    int     `json:"poll_ms"`
	Target    string  `json:"target"`
	Port      int     `json:"port"`
	IPIDBase  *int64  `json:"ipid_base"`
	EchoBase  *int64  `json:"echo_base"`
	SeqBase   *int64  `json:"seq_base"`
	SeqBase32 *[2]int `json:"seq_base32"` // <<hi16, lo16>> form used by TLC-generated scenarios
	ISN32     *[2]int `json:"isn32"`
	Label     string  `json:"label"`
	CancelUs  int64   `json:"cancel_us"`
	Drain     bool    `json:"drain"`     // after the call has returned keep the wire running until the end of the listening window
	Realclock bool    `json:"realclock"` // run on the real clock, outside a synctest bubble (a lock held across a blocking write would freeze a virtual clock)
	wire.Script
	Run    *RunParams     `json:"run"`
	Mix    []*RunParams   `json:"mix"`
	Before []*RunParams   `json:"before"` // history: requests served earlier by the same process (not part of the trace)
	Engine *EngineScript  `json:"engine"`
	Extra  map[string]any `json:"extra"`
}

type traceWriter struct {
	f *os.File
	w *bufio.Writer
}

func (tw *traceWriter) write(scen string, evs []wire.Event) {
	for _, e := range evs {
		e["scen"] = scen
		b, err := json.Marshal(e)
		if err != nil {
			panic(err)
		}
		tw.w.Write(b)
		tw.w.WriteByte('\n')
	}
	tw.w.Flush()
}

func TestScenarios(t *testing.T) {
	if *flagIn == "" {
		t.Skip("no -vt.in")
	}
	in, err := os.Open(*flagIn)
	if err != nil {
		t.Fatal(err)
	}
	defer in.Close()
	out, err := os.Create(*flagOut)
	if err != nil {
		t.Fatal(err)
	}
	defer out.Close()
	tw := &traceWriter{f: out, w: bufio.NewWriterSize(out, 1<<20)}
	// warm up the process-wide resolver state outside any bubble (its semaphore channel must not belong to one)
	net.LookupIP("warmup.invalid")
	sc := bufio.NewScanner(in)
	sc.Buffer(make([]byte, 1<<20), 1<<26)
	n := 0
	for sc.Scan() {
		line := sc.Bytes()
		if len(strings.TrimSpace(string(line))) == 0 {
			continue
		}
		n++
		if n <= *flagSkip {
			continue
		}
		var s Scenario
		if err := json.Unmarshal(line, &s); err != nil {
			t.Fatalf("scenario %d: %v", n, err)
		}
		tw.write(s.ID, []wire.Event{{"event": "Begin", "n": 0, "t": 0, "idx": n, "twin": s.Twin}})
		// real-time watchdog (outside any bubble): goroutines parked on a sync.Mutex whose holder waits on the virtual clock freeze a
		// bubble for good; the process is ended with a recognisable message and the driver restarts behind this scenario
		finished := make(chan struct{})
		go func(id string) {
			select {
			case <-finished:
			case <-time.After(150 * time.Second):
				fmt.Printf("fatal error: harness real-time watchdog: scenario %s made no progress for 150 s of real time (virtual clock frozen?)\n", id)
				os.Exit(3)
			}
		}(s.ID)
		evs := runScenario(t, &s)
		close(finished)
		tw.write(s.ID, evs)
	}
}

func runScenario(t *testing.T, s *Scenario) []wire.Event {
	switch s.Kind {
	case "", "wire":
		return runWire(t, s)
	case "engine":
		return runEngine(t, s)
	default:
		if f, ok := kinds[s.Kind]; ok {
			return f(t, s)
		}
		t.Fatalf("unknown scenario kind %q", s.Kind)
		return nil
	}
}

var kinds = map[string]func(*testing.T, *Scenario) []wire.Event{}

func (s *Scenario) defaults() {
	if s.Min == 0 {
		s.Min = 1
	}
	if s.Max == 0 {
		s.Max = 5
	}
	if s.TimeoutMs == 0 {
		s.TimeoutMs = 1000
	}
	if s.PollMs == 0 {
		s.PollMs = 100
	}
	if s.Port == 0 {
		s.Port = 33434
	}
	if s.Target == "" {
		if strings.HasSuffix(s.Variant, "6") {
			s.Target = "2001:db8:99::9"
		} else {
			s.Target = "198.51.100.9"
		}
	}
}

// concOut: one result of several concurrent calls of a protocol entry point, identified by its source port
type concOut struct {
	SPort int      `json:"sport"`
	Hops  []hopOut `json:"hops"`
}

type hopOut struct {
	TTL   int      `json:"ttl"`
	Addr  string   `json:"addr"`
	RTTUs int64    `json:"rtt_us"`
	Dest  bool     `json:"dest"`
	Reach bool     `json:"reach"`
	Names []string `json:"names"`
}

func hopsOf(run *result.TracerouteRun) []hopOut {
	hs := []hopOut{}
	for _, h := range run.Hops {
		o := hopOut{TTL: h.TTL, RTTUs: int64(math.Round(h.RTT * 1000)), Dest: h.IsDest, Reach: h.Reachable, Names: []string{}}
		if len(h.IPAddress) > 0 {
			if a, ok := netip.AddrFromSlice(h.IPAddress); ok {
				o.Addr = a.Unmap().String()
			} else {
				o.Addr = "invalid"
			}
		}
		hs = append(hs, o)
	}
	return hs
}

func ipStr(ip net.IP) string {
	if a, ok := netip.AddrFromSlice(ip); ok {
		return a.Unmap().String()
	}
	return ""
}

// errInfo flattens an error for the trace.
func errInfo(err error) map[string]any {
	m := map[string]any{"nil": err == nil, "msg": "", "canceled": false, "deadline": false, "notsupported": false, "causes": []string{}}
	if err == nil {
		return m
	}
	m["msg"] = err.Error()
	m["canceled"] = errors.Is(err, context.Canceled)
	m["deadline"] = errors.Is(err, context.DeadlineExceeded) || errors.Is(err, os.ErrDeadlineExceeded)
	var ns *sack.NotSupportedError
	m["notsupported"] = errors.As(err, &ns)
	causes := []string{}
	var he *httpError
	if errors.As(err, &he) {
		for _, op := range []string{"newsink", "newsource", "setfilter", "setdeadline", "read", "write", "close_sink", "close_source"} {
			if strings.Contains(he.body, "injected-"+op) {
				causes = append(causes, op)
			}
			for r := 1; r <= 400; r++ {
				if strings.Contains(he.body, fmt.Sprintf("injected-%s@%d-", op, r)) {
					causes = append(causes, fmt.Sprintf("%s@%d", op, r))
				}
			}
		}
		m["causes"] = causes
		return m
	}
	for _, op := range []string{"newsink", "newsource", "setfilter", "setdeadline", "read", "write", "close_sink", "close_source"} {
		if errors.Is(err, wire.SentinelFor(op)) {
			causes = append(causes, op)
			for r := 1; r <= 64; r++ {
				if errors.Is(err, wire.SentinelForRun(op, r)) {
					causes = append(causes, fmt.Sprintf("%s@%d", op, r))
				}
			}
		}
	}
	m["causes"] = causes
	return m
}

// repoGoroutines counts goroutines currently executing code of the repository under test.
func repoGoroutines() (int, string) {
	buf := make([]byte, 1<<20)
	n := runtime.Stack(buf, true)
	cnt := 0
	sample := ""
	for _, g := range strings.Split(string(buf[:n]), "\n\n") {
		lines := strings.Split(g, "\n")
		hit := false
		for _, l := range lines[1:] {
			if strings.HasPrefix(l, "created by") {
				break
			}
			if strings.HasPrefix(l, "github.com/DataDog/datadog-traceroute/") {
				hit = true
			}
		}
		if hit {
			cnt++
			if sample == "" {
				sample = g
			}
		}
	}
	return cnt, sample
}

// settle: let every goroutine of the scenario come to rest (bubble: exactly; real clock: a pause)
func settle(real bool) {
	if real {
		time.Sleep(60 * time.Millisecond)
		return
	}
	synctest.Wait()
}

func runWire(t *testing.T, s *Scenario) (evs []wire.Event) {
	s.defaults()
	bubble := synctest.Test
	if s.Realclock {
		bubble = func(t *testing.T, f func(*testing.T)) { f(t) }
	}
	s.Script.Realclock = s.Realclock
	bubble(t, func(t *testing.T) {
		w := wire.New(s.Script)
		w.Install()
		defer wire.Uninstall()
		if s.IPIDBase != nil {
			packets.VerifSetPacketIDBase(uint32(*s.IPIDBase))
		}
		if s.EchoBase != nil {
			icmp.VerifSetEchoIDBase(uint32(*s.EchoBase))
		}
		tcp.VerifSeqNum = nil
		if s.SeqBase32 != nil {
			v := int64(s.SeqBase32[0])<<16 | int64(s.SeqBase32[1])
			s.SeqBase = &v
		}
		if s.ISN32 != nil {
			w.SetISN(uint32(s.ISN32[0])<<16 | uint32(s.ISN32[1]))
		}
		if s.SeqBase != nil {
			v := uint32(*s.SeqBase)
			tcp.VerifSeqNum = func() (uint32, bool) { return v, true }
		}
		target := netip.MustParseAddr(s.Target)
		if s.Variant == "sack" && !boolExtra(s, "port_closed") {
			ln, err := net.Listen("tcp4", netip.AddrPortFrom(target, uint16(s.Port)).String())
			if err != nil {
				t.Fatalf("harness: listen %s: %v", s.Target, err)
			}
			w.Listener = ln
		}
		w.LogEvent("Params", "variant", s.Variant, "entry", entryOf(s), "strict", s.Strict, "min", s.Min, "max", s.Max,
			"timeout_us", int64(s.TimeoutMs)*1000, "delay_us", int64(s.DelayMs)*1000, "poll_us", int64(s.PollMs)*1000,
			"target", s.Target, "port", s.Port, "cancel_us", s.CancelUs, "filter", s.Script.Filter, "realclock", s.Realclock, "concurrent", numExtra(s, "concurrent"))
		ctx, cancel := context.WithCancel(context.Background())
		defer cancel()
		if s.CancelUs > 0 {
			tm := time.AfterFunc(time.Duration(s.CancelUs)*time.Microsecond, func() {
				w.LogEvent("Cancel")
				cancel()
			})
			defer tm.Stop()
		}
		if boolExtra(s, "verbose") { // what -v / --log-level trace switch on
			rlog.SetLogLevel(rlog.LevelTrace)
			defer rlog.SetLogLevel(rlog.LevelInfo)
		}
		var run *result.TracerouteRun
		var err error
		var concMu sync.Mutex
		conc := []concOut{}
		concErr := 0
		panicked := ""
		limit := 30 * time.Minute // (the trace clock is in microseconds and TLC integers are 32 bit)
		if s.Realclock {
			limit = 12 * time.Second // real time: far beyond every bound of a real-clock scenario
		}
		hung := watchdog(t, w, limit, func() {
			defer func() {
				if r := recover(); r != nil {
					panicked = fmt.Sprint(r)
				}
			}()
			// "concurrent": further identical calls of the protocol entry point running at the same time over the same wire (a library
			// user with several goroutines), the k-th started k * stagger_us later; every result is reported with its source port
			var cwg sync.WaitGroup
			if n, ok := s.Extra["concurrent"].(float64); ok && n > 1 {
				stag, _ := s.Extra["stagger_us"].(float64)
				for k := 1; k < int(n); k++ {
					cwg.Add(1)
					go func(k int) {
						defer cwg.Done()
						defer func() { recover() }()
						time.Sleep(time.Duration(float64(k)*stag) * time.Microsecond)
						r2, e2 := callProto(ctx, s, target)
						concMu.Lock()
						defer concMu.Unlock()
						if e2 == nil && r2 != nil {
							conc = append(conc, concOut{SPort: int(r2.Source.Port), Hops: hopsOf(r2)})
						} else {
							concErr++
						}
					}(k)
				}
			}
			run, err = callProto(ctx, s, target)
			cwg.Wait()
		})
		if hung {
			run, err = nil, errors.New("harness watchdog: the call did not return within 30 minutes of virtual time")
		}
		hung = hung || w.Spun // a busy loop that only the harness ended never returns on its own
		ret := []any{"ok", err == nil && panicked == "" && !hung, "hung", hung, "panic", panicked, "err", errInfo(err), "has_result", run != nil, "t", w.NowUs()}
		if s.Drain && !hung {
			// keep the wire alive until the end of the listening window the parameters define: replies that were still on their way
			// when the call returned are logged as arrivals (C02 is owed to what arrives inside the window, whether or not the run
			// was still listening)
			end := time.Duration(s.TimeoutMs)*time.Millisecond + time.Duration(s.DelayMs*(s.Max-s.Min+1))*time.Millisecond
			if rest := end - time.Duration(w.NowUs())*time.Microsecond; rest > 0 {
				time.Sleep(rest)
			}
		}
		if run != nil {
			conc = append(conc, concOut{SPort: int(run.Source.Port), Hops: hopsOf(run)})
		}
		ret = append(ret, "conc", conc, "conc_err", concErr)
		if run != nil {
			ret = append(ret, "hops", hopsOf(run), "src", ipStr(run.Source.IPAddress), "sport", int(run.Source.Port),
				"dst", ipStr(run.Destination.IPAddress), "dport", int(run.Destination.Port))
		} else {
			ret = append(ret, "hops", []hopOut{}, "src", "", "sport", 0, "dst", "", "dport", 0)
		}
		// the caller's context ends after the call has returned (what net/http does with a request context): nothing of the
		// finished run may react to that any more (use of a closed handle, a goroutine started by the run)
		cancel()
		// goroutines of the repository that are still alive when the call has returned and everything has settled (Stop below
		// would abort them: count first), and those that do not even end then
		settle(s.Realclock)
		g, sample := repoGoroutines()
		w.Stop()
		settle(s.Realclock)
		if g2, s2 := repoGoroutines(); g2 > g {
			g, sample = g2, s2
		}
		opened, once, bad := w.HandleSummary()
		ret = append(ret, "goroutines", g, "gsample", sample, "opened", opened, "closed_once", once, "bad_handles", bad, "accepts", w.Accepts, "flood_delivered", w.FloodDelivered)
		w.LogEvent("Return", ret...)
		evs = w.Events()
	})
	return evs
}

// watchdog runs f and returns true if it is still running after 30 minutes of virtual time; the wire is then stopped (every
// handle operation fails from then on) and f gets three more minutes to unwind.
func watchdog(t *testing.T, w *wire.Wire, limit time.Duration, f func()) bool {
	done := make(chan struct{})
	go func() {
		defer close(done)
		f()
	}()
	select {
	case <-done:
		return false
	case <-time.After(limit):
	}
	w.LogEvent("Watchdog")
	w.Stop()
	if limit < time.Minute {
		// real clock: a call that does not even unwind after its handles were aborted is stuck for good (a deadlock); its goroutine is
		// left behind and the scenario is reported as hung
		select {
		case <-done:
		case <-time.After(10 * time.Second):
			w.LogEvent("Stuck")
		}
		return true
	}
	select {
	case <-done:
	case <-time.After(3 * time.Minute):
		t.Fatalf("harness: the code under test is stuck and does not unwind after its handles were aborted")
	}
	return true
}

func entryOf(s *Scenario) string {
	if s.Entry == "" {
		return "proto"
	}
	return s.Entry
}

func boolExtra(s *Scenario, k string) bool {
	v, _ := s.Extra[k].(bool)
	return v
}

func callProto(ctx context.Context, s *Scenario, target netip.Addr) (*result.TracerouteRun, error) {
	tp := common.TracerouteParams{
		MinTTL: uint8(s.Min), MaxTTL: uint8(s.Max),
		TracerouteTimeout: time.Duration(s.TimeoutMs) * time.Millisecond,
		PollFrequency:     time.Duration(s.PollMs) * time.Millisecond,
		SendDelay:         time.Duration(s.DelayMs) * time.Millisecond,
	}
	switch s.Variant {
	case "icmp4", "icmp6":
		return icmp.RunICMPTraceroute(ctx, icmp.Params{Target: target, ParallelParams: common.TracerouteParallelParams{TracerouteParams: tp}})
	case "udp4", "udp6":
		cfg := udp.NewUDPv4(target.AsSlice(), uint16(s.Port), tp.MinTTL, tp.MaxTTL, tp.SendDelay, tp.TracerouteTimeout, false)
		cfg.LoosenICMPSrc = !s.Strict
		return cfg.Traceroute()
	case "tcp", "tcp_paris":
		cfg := tcp.NewTCPv4(target.AsSlice(), uint16(s.Port), tp.MinTTL, tp.MaxTTL, tp.SendDelay, tp.TracerouteTimeout, s.Variant == "tcp_paris", false)
		cfg.LoosenICMPSrc = !s.Strict
		return cfg.Traceroute()
	case "sack":
		fin := 500 * time.Millisecond
		if v, ok := s.Extra["fin_timeout_ms"].(float64); ok && v > 0 {
			fin = time.Duration(v) * time.Millisecond // (production: 500 SECONDS - a budget of the deadline, never a wait)
		}
		p := sack.Params{Target: netip.AddrPortFrom(target, uint16(s.Port)), HandshakeTimeout: tp.TracerouteTimeout,
			FinTimeout: fin, ParallelParams: common.TracerouteParallelParams{TracerouteParams: tp}, LoosenICMPSrc: !s.Strict}
		return sack.RunSackTraceroute(ctx, p)
	}
	return nil, fmt.Errorf("harness: unknown variant %q", s.Variant)
}
