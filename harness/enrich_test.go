package vt

import (
	"context"
	"encoding/json"
	"errors"
	"fmt"
	"io"
	"net"
	"net/http"
	"strings"
	"sync"
	"testing"
	"testing/synctest"
	"time"

	"github.com/cenkalti/backoff/v5"
	gocache "github.com/patrickmn/go-cache"

	"github.com/DataDog/datadog-traceroute/cache"
	"github.com/DataDog/datadog-traceroute/publicip"
	"github.com/DataDog/datadog-traceroute/reversedns"

	"vt/wire"
)

func init() { kinds["cache"] = runCache; kinds["pubip"] = runPubIP; kinds["pubfetch"] = runPubFetch }

// CacheOp is one step of a cache scenario.
type CacheOp struct {
	Op  string `json:"op"`  // get | advance
	Key string `json:"key"` // get: key
	CB  string `json:"cb"`  // get: outcome of the callback if it is invoked: ok | err
	Via string `json:"via"` // raw (cache.GetWithExpiration) | dns (reversedns.GetReverseDns) | pub (PublicIPFetcher.GetIP)
	Ms  int64  `json:"ms"`  // advance: virtual milliseconds
}

// runCache replays a TLC-generated sequence of cache operations on the real cache package (and on its two users).
func runCache(t *testing.T, s *Scenario) (evs []wire.Event) {
	var ops []CacheOp
	raw, _ := jsonMarshal(s.Extra["ops"])
	if err := jsonUnmarshal(raw, &ops); err != nil {
		t.Fatalf("cache scenario: %v", err)
	}
	ttlMs := int64(0)
	if v, ok := s.Extra["ttl_ms"].(float64); ok {
		ttlMs = int64(v)
	}
	synctest.Test(t, func(t *testing.T) {
		w := wire.New(wire.Script{})
		w.Millis = true // the trace clock of cache scenarios is in milliseconds (they span hours)
		old := cache.Cache
		cache.Cache = gocache.New(5*time.Minute, 0) // no janitor goroutine (it would run on the real clock)
		defer func() { cache.Cache = old }()
		oldLookup := reversedns.LookupAddrFn
		defer func() { reversedns.LookupAddrFn = oldLookup }()
		w.LogEvent("Params", "variant", "cache", "entry", "cache", "strict", false, "min", 0, "max", 0, "timeout_us", 0, "delay_us", 0, "poll_us", 0,
			"target", "", "port", 0, "cancel_us", 0, "filter", false, "ttl_ms", ttlMs)
		serial := 0
		for i, op := range ops {
			switch op.Op {
			case "advance":
				time.Sleep(time.Duration(op.Ms) * time.Millisecond)
				w.LogEvent("Got", "i", i+1, "op", "advance", "key", "", "invoked", false, "ok", true, "val", "", "ms", op.Ms, "cb", "")
			case "get":
				invoked := false
				serial++
				fresh := fmt.Sprintf("v%d", serial)
				var val string
				var err error
				switch op.Via {
				case "dns":
					reversedns.LookupAddrFn = func(ctx context.Context, addr string) ([]string, error) {
						invoked = true
						if op.CB == "err" { // what a resolver returns for an address without a PTR record
							return nil, &net.DNSError{Err: "no such host", Name: addr, IsNotFound: true}
						}
						return []string{fresh}, nil
					}
					var names []string
					names, err = reversedns.GetReverseDns(op.Key)
					val = strings.Join(names, ",")
				default:
					val, err = cache.GetWithExpiration(op.Key, func() (string, error) {
						invoked = true
						if op.CB == "err" {
							return "", errors.New("injected callback failure")
						}
						return fresh, nil
					}, time.Duration(ttlMs)*time.Millisecond)
				}
				w.LogEvent("Got", "i", i+1, "op", "get", "key", op.Key, "invoked", invoked, "ok", err == nil, "val", val, "ms", 0, "cb", op.CB)
			}
		}
		w.LogEvent("Return", "ok", true, "panic", "", "err", errInfo(nil), "has_result", false, "hops", []hopOut{}, "src", "", "sport", 0, "dst", "", "dport", 0,
			"goroutines", 0, "gsample", "", "opened", 0, "closed_once", 0, "bad_handles", []string{}, "accepts", 0)
		evs = w.Events()
	})
	return evs
}

// ProviderScript: what provider k (in list order) answers to its successive requests.
type ProviderResp struct {
	Kind       string `json:"kind"` // ok | status | body | neterr | hang | slowbody
	Status     int    `json:"status"`
	Body       string `json:"body"`
	DelayUs    int64  `json:"delay_us"`
	RetryAfter string `json:"retry_after"` // Retry-After header of the answer ("" = none)
}

type scriptedRT struct {
	mu      sync.Mutex
	w       *wire.Wire
	hosts   []string
	script  map[string][]ProviderResp
	attempt map[string]int
}

type slowBody struct {
	ctx  context.Context
	data []byte
	gap  time.Duration
}

func (b *slowBody) Read(p []byte) (int, error) {
	if len(b.data) == 0 {
		return 0, io.EOF
	}
	select {
	case <-time.After(b.gap):
	case <-b.ctx.Done():
		return 0, b.ctx.Err()
	}
	p[0] = b.data[0]
	b.data = b.data[1:]
	return 1, nil
}
func (b *slowBody) Close() error { return nil }

func (rt *scriptedRT) RoundTrip(req *http.Request) (*http.Response, error) {
	host := req.URL.Host
	rt.mu.Lock()
	rt.attempt[host]++
	n := rt.attempt[host]
	sc := rt.script[host]
	var r ProviderResp
	if len(sc) == 0 {
		r = ProviderResp{Kind: "neterr"}
	} else if n <= len(sc) {
		r = sc[n-1]
	} else {
		r = sc[len(sc)-1]
	}
	rt.mu.Unlock()
	rt.w.LogEvent("Got", "op", "request", "host", host, "attempt", n, "kind", r.Kind, "ctx_bound", req.Context() != context.Background() && req.Context().Done() != nil)
	if r.DelayUs > 0 {
		select {
		case <-time.After(time.Duration(r.DelayUs) * time.Microsecond):
		case <-req.Context().Done():
			return nil, req.Context().Err()
		}
	}
	mk := func(status int, body io.ReadCloser) *http.Response {
		return &http.Response{StatusCode: status, Status: fmt.Sprintf("%d %s", status, http.StatusText(status)), Body: body, Header: http.Header{}, Request: req, ProtoMajor: 1, ProtoMinor: 1}
	}
	switch r.Kind {
	case "neterr":
		return nil, errors.New("injected transport error")
	case "hang": // a stalled responder: nothing ever arrives; only the request's own context (or a very long time) ends it
		select {
		case <-req.Context().Done():
			return nil, req.Context().Err()
		case <-time.After(time.Hour):
			return nil, errors.New("stalled for an hour")
		}
	case "slowbody": // headers at once, then one byte every 700 ms
		return mk(200, &slowBody{ctx: req.Context(), data: []byte(r.Body + "\n"), gap: 700 * time.Millisecond}), nil
	default:
		st := r.Status
		if st == 0 {
			st = 200
		}
		resp := mk(st, io.NopCloser(strings.NewReader(r.Body)))
		if r.RetryAfter != "" {
			resp.Header.Set("Retry-After", r.RetryAfter)
		}
		return resp, nil
	}
}

var providerHosts = []string{"icanhazip.com", "ipinfo.io", "checkip.amazonaws.com", "api.ipify.org", "whatismyip.akamai.com"}

// runPubIP drives publicip.GetPublicIP with scripted providers under the virtual clock.
func runPubIP(t *testing.T, s *Scenario) (evs []wire.Event) {
	var scripts [][]ProviderResp
	raw, _ := jsonMarshal(s.Extra["providers"])
	if err := jsonUnmarshal(raw, &scripts); err != nil {
		t.Fatalf("pubip scenario: %v", err)
	}
	synctest.Test(t, func(t *testing.T) {
		w := wire.New(wire.Script{})
		w.Millis = true // stalled responders give up after an hour: the trace clock is in milliseconds
		rt := &scriptedRT{w: w, hosts: providerHosts, script: map[string][]ProviderResp{}, attempt: map[string]int{}}
		for i, sc := range scripts {
			if i < len(providerHosts) {
				rt.script[providerHosts[i]] = sc
			}
		}
		client := &http.Client{Transport: rt}
		bo := backoff.NewExponentialBackOff()
		bo.InitialInterval = 500 * time.Millisecond
		bo.MaxInterval = 3 * time.Second
		w.LogEvent("Params", "variant", "pubip", "entry", "pubip", "strict", false, "min", 0, "max", 0, "timeout_us", 0, "delay_us", 0, "poll_us", 0,
			"target", "", "port", 0, "cancel_us", s.CancelUs, "filter", false, "providers", s.Extra["providers"], "expect", s.Extra["expect"])
		ctx, cancel := context.WithCancel(context.Background())
		defer cancel()
		if s.CancelUs > 0 {
			tm := time.AfterFunc(time.Duration(s.CancelUs)*time.Microsecond, func() { w.LogEvent("Cancel"); cancel() })
			defer tm.Stop()
		}
		done := make(chan struct{})
		var ip string
		var err error
		go func() {
			defer close(done)
			v, e := publicip.GetPublicIP(ctx, client, bo)
			if e == nil {
				ip = v.String()
			}
			err = e
		}()
		// a call that has not returned after 10x its bound is reported as such (the stalled responders give up after an hour)
		select {
		case <-done:
		case <-time.After(2 * time.Hour):
		}
		returned := false
		select {
		case <-done:
			returned = true
		default:
		}
		w.LogEvent("Return", "ok", err == nil && returned, "returned", returned, "ip", ip, "panic", "", "err", errInfo(err), "has_result", ip != "",
			"hops", []hopOut{}, "src", "", "sport", 0, "dst", "", "dport", 0,
			"goroutines", 0, "gsample", "", "opened", 0, "closed_once", 0, "bad_handles", []string{}, "accepts", 0)
		evs = w.Events()
	})
	return evs
}

func jsonMarshal(v any) ([]byte, error)   { return json.Marshal(v) }
func jsonUnmarshal(b []byte, v any) error { return json.Unmarshal(b, v) }

// runPubFetch: the REAL PublicIPFetcher (its own http client) in a namespace without connectivity: every provider fails. Several
// lookups in a row on ONE fetcher, on the real clock; each must come back (with an error) within the budget of the five providers -
// what happened to an earlier lookup must not change that.
func runPubFetch(t *testing.T, s *Scenario) []wire.Event {
	n := 2
	if v, ok := s.Extra["calls"].(float64); ok {
		n = int(v)
	}
	w := wire.New(wire.Script{})
	w.Millis = true
	old := cache.Cache
	cache.Cache = gocache.New(5*time.Minute, 0)
	defer func() { cache.Cache = old }()
	w.LogEvent("Params", "variant", "pubfetch", "entry", "pubfetch", "strict", false, "min", 0, "max", 0, "timeout_us", 0, "delay_us", 0, "poll_us", 0,
		"target", "", "port", 0, "cancel_us", 0, "filter", false, "calls", n)
	f := publicip.NewPublicIPFetcher()
	for i := 1; i <= n; i++ {
		done := make(chan error, 1)
		t0 := time.Now()
		go func() {
			_, err := f.GetIP(context.Background())
			done <- err
		}()
		returned, ok := false, false
		select {
		case err := <-done:
			returned, ok = true, err == nil
		case <-time.After(30 * time.Second):
		}
		w.LogEvent("Got", "op", "getip", "i", i, "returned", returned, "ok", ok, "ms", time.Since(t0).Milliseconds())
		if !returned {
			break
		}
	}
	w.LogEvent("Return", "ok", true, "panic", "", "err", errInfo(nil), "has_result", false, "hops", []hopOut{}, "src", "", "sport", 0, "dst", "", "dport", 0,
		"goroutines", 0, "gsample", "", "opened", 0, "closed_once", 0, "bad_handles", []string{}, "accepts", 0)
	return w.Events()
}
