// Package pkt is the harness's own wire codec (IPv4, IPv6, ICMPv4/6, UDP, TCP). It deliberately shares
// no code with the repository under test or with gopacket: probes emitted by the code are decoded here,
// and every reply the simulated network delivers is encoded here, so an encoder/decoder mistake in the
// repository cannot cancel against itself.
package pkt

import (
	"encoding/binary"
	"errors"
	"fmt"
	"net/netip"
)

var be = binary.BigEndian

// Csum is the Internet checksum over b (with an optional initial partial sum).
func Csum(b []byte, init uint32) uint16 {
	sum := init
	for i := 0; i+1 < len(b); i += 2 {
		sum += uint32(b[i])<<8 | uint32(b[i+1])
	}
	if len(b)%2 == 1 {
		sum += uint32(b[len(b)-1]) << 8
	}
	for sum>>16 != 0 {
		sum = (sum & 0xffff) + (sum >> 16)
	}
	return ^uint16(sum)
}

func pseudo(src, dst netip.Addr, proto uint8, l4len int) uint32 {
	var sum uint32
	add := func(b []byte) {
		for i := 0; i+1 < len(b); i += 2 {
			sum += uint32(b[i])<<8 | uint32(b[i+1])
		}
	}
	s, d := src.AsSlice(), dst.AsSlice()
	add(s)
	add(d)
	if src.Is4() {
		sum += uint32(proto)
		sum += uint32(l4len)
	} else {
		sum += uint32(l4len >> 16)
		sum += uint32(l4len & 0xffff)
		sum += uint32(proto)
	}
	return sum
}

// IP is a decoded IPv4/IPv6 header.
type IP struct {
	V6      bool
	HBH     bool // v6: a hop-by-hop options header follows the fixed header
	Src     netip.Addr
	Dst     netip.Addr
	Proto   uint8 // v6: next header of the fixed header
	TTL     uint8
	ID      uint16
	TOS     uint8
	FlagsFO uint16 // v4 flags+fragment offset word
	Options []byte // v4 options (multiple of 4)
	HdrLen  int
	TotLen  int // v4 total length / v6 payload length + 40 as stated in the header
	CsumOK  bool
	LenOK   bool // stated length equals the buffer length
}

// ParseIP decodes an IP header; payload is everything after the header (bounded by the stated length
// when that is consistent).
func ParseIP(b []byte) (IP, []byte, error) {
	if len(b) < 1 {
		return IP{}, nil, errors.New("empty")
	}
	switch b[0] >> 4 {
	case 4:
		if len(b) < 20 {
			return IP{}, nil, errors.New("short v4")
		}
		ihl := int(b[0]&0xf) * 4
		if ihl < 20 || len(b) < ihl {
			return IP{}, nil, fmt.Errorf("bad ihl %d", ihl)
		}
		h := IP{TOS: b[1], TotLen: int(be.Uint16(b[2:4])), ID: be.Uint16(b[4:6]), FlagsFO: be.Uint16(b[6:8]),
			TTL: b[8], Proto: b[9], HdrLen: ihl}
		h.Src, _ = netip.AddrFromSlice(b[12:16])
		h.Dst, _ = netip.AddrFromSlice(b[16:20])
		h.Options = append([]byte(nil), b[20:ihl]...)
		h.CsumOK = Csum(b[:ihl], 0) == 0
		h.LenOK = h.TotLen == len(b)
		if h.TotLen != 0 && h.TotLen < ihl { // (0 = segmentation offload on capture: the buffer length is used, as decoders do)
			return IP{}, nil, fmt.Errorf("total length %d < header length %d", h.TotLen, ihl)
		}
		end := len(b)
		if h.TotLen >= ihl && h.TotLen <= len(b) {
			end = h.TotLen
		}
		return h, b[ihl:end], nil
	case 6:
		if len(b) < 40 {
			return IP{}, nil, errors.New("short v6")
		}
		h := IP{V6: true, TOS: (b[0]&0xf)<<4 | b[1]>>4, TotLen: int(be.Uint16(b[4:6])) + 40, Proto: b[6], TTL: b[7], HdrLen: 40, CsumOK: true}
		h.Src, _ = netip.AddrFromSlice(b[8:24])
		h.Dst, _ = netip.AddrFromSlice(b[24:40])
		h.LenOK = h.TotLen == len(b)
		end := len(b)
		if h.TotLen <= len(b) {
			end = h.TotLen
		}
		pl := b[40:end]
		// a hop-by-hop options header is part of the IPv6 header as far as the transport is concerned
		// (destination-options / routing headers are NOT looked behind: neither does the code under test today; a packet that
		// carries them is "some other protocol" for the design's matcher as well)
		if h.Proto == 0 && len(pl) >= 8 && (int(pl[1])+1)*8 <= len(pl) {
			n := (int(pl[1]) + 1) * 8
			h.Proto = pl[0]
			h.HdrLen = 40 + n
			h.HBH = true
			pl = pl[n:]
		}
		return h, pl, nil
	}
	return IP{}, nil, fmt.Errorf("bad version %d", b[0]>>4)
}

// BuildIP serialises h followed by payload, fixing lengths and the v4 header checksum.
func BuildIP(h IP, payload []byte) []byte {
	if h.V6 {
		b := make([]byte, 40+len(payload))
		b[0] = 6<<4 | h.TOS>>4
		b[1] = h.TOS << 4
		be.PutUint16(b[4:6], uint16(len(payload)))
		b[6] = h.Proto
		b[7] = h.TTL
		copy(b[8:24], h.Src.AsSlice())
		copy(b[24:40], h.Dst.AsSlice())
		copy(b[40:], payload)
		return b
	}
	opt := h.Options
	for len(opt)%4 != 0 {
		opt = append(opt, 0)
	}
	ihl := 20 + len(opt)
	b := make([]byte, ihl+len(payload))
	b[0] = 4<<4 | byte(ihl/4)
	b[1] = h.TOS
	be.PutUint16(b[2:4], uint16(len(b)))
	be.PutUint16(b[4:6], h.ID)
	be.PutUint16(b[6:8], h.FlagsFO)
	b[8] = h.TTL
	b[9] = h.Proto
	copy(b[12:16], h.Src.AsSlice())
	copy(b[16:20], h.Dst.AsSlice())
	copy(b[20:], opt)
	be.PutUint16(b[10:12], Csum(b[:ihl], 0))
	copy(b[ihl:], payload)
	return b
}

// TCP is a decoded TCP header.
type TCP struct {
	SPort, DPort uint16
	Seq, Ack     uint32
	Flags        uint8 // CWR ECE URG ACK PSH RST SYN FIN
	Win          uint16
	Options      []byte
	Payload      []byte
	CsumOK       bool
	DataOff      int
}

const (
	FIN = 1
	SYN = 2
	RST = 4
	PSH = 8
	ACK = 16
)

func ParseTCP(ip IP, b []byte) (TCP, error) {
	if len(b) < 20 {
		return TCP{}, errors.New("short tcp")
	}
	off := int(b[12]>>4) * 4
	if off < 20 || off > len(b) {
		return TCP{}, fmt.Errorf("bad data offset %d", off)
	}
	t := TCP{SPort: be.Uint16(b[0:2]), DPort: be.Uint16(b[2:4]), Seq: be.Uint32(b[4:8]), Ack: be.Uint32(b[8:12]),
		Flags: b[13], Win: be.Uint16(b[14:16]), DataOff: off}
	t.Options = append([]byte(nil), b[20:off]...)
	t.Payload = append([]byte(nil), b[off:]...)
	t.CsumOK = Csum(b, pseudo(ip.Src, ip.Dst, 6, len(b))) == 0
	return t, nil
}

func BuildTCP(src, dst netip.Addr, t TCP) []byte {
	opt := t.Options
	for len(opt)%4 != 0 {
		opt = append(opt, 1)
	}
	off := 20 + len(opt)
	b := make([]byte, off+len(t.Payload))
	be.PutUint16(b[0:2], t.SPort)
	be.PutUint16(b[2:4], t.DPort)
	be.PutUint32(b[4:8], t.Seq)
	be.PutUint32(b[8:12], t.Ack)
	b[12] = byte(off/4) << 4
	b[13] = t.Flags
	be.PutUint16(b[14:16], t.Win)
	copy(b[20:], opt)
	copy(b[off:], t.Payload)
	be.PutUint16(b[16:18], Csum(b, pseudo(src, dst, 6, len(b))))
	return b
}

// SackEdges returns the left edges of all SACK blocks in TCP options and whether SACK-permitted /
// timestamps are present.
func ParseTCPOptions(opt []byte) (sackLeft []uint32, sackPerm bool, ts bool, tsVal, tsEcr uint32) {
	for i := 0; i < len(opt); {
		k := opt[i]
		if k == 0 {
			break
		}
		if k == 1 {
			i++
			continue
		}
		if i+1 >= len(opt) {
			break
		}
		l := int(opt[i+1])
		if l < 2 || i+l > len(opt) {
			break
		}
		d := opt[i+2 : i+l]
		switch k {
		case 4:
			sackPerm = true
		case 5:
			for ; len(d) >= 8; d = d[8:] {
				sackLeft = append(sackLeft, be.Uint32(d[:4]))
			}
		case 8:
			if len(d) >= 8 {
				ts = true
				tsVal, tsEcr = be.Uint32(d[:4]), be.Uint32(d[4:8])
			}
		}
		i += l
	}
	return
}

type UDP struct {
	SPort, DPort uint16
	Len, Sum     uint16
	Payload      []byte
	CsumOK       bool
	LenOK        bool
}

func ParseUDP(ip IP, b []byte) (UDP, error) {
	if len(b) < 8 {
		return UDP{}, errors.New("short udp")
	}
	u := UDP{SPort: be.Uint16(b[0:2]), DPort: be.Uint16(b[2:4]), Len: be.Uint16(b[4:6]), Sum: be.Uint16(b[6:8])}
	u.Payload = append([]byte(nil), b[8:]...)
	u.LenOK = int(u.Len) == len(b)
	u.CsumOK = (u.Sum == 0 && !ip.V6) || Csum(b, pseudo(ip.Src, ip.Dst, 17, len(b))) == 0
	return u, nil
}

func BuildUDP(src, dst netip.Addr, u UDP) []byte {
	b := make([]byte, 8+len(u.Payload))
	be.PutUint16(b[0:2], u.SPort)
	be.PutUint16(b[2:4], u.DPort)
	be.PutUint16(b[4:6], uint16(len(b)))
	copy(b[8:], u.Payload)
	c := Csum(b, pseudo(src, dst, 17, len(b)))
	if c == 0 {
		c = 0xffff
	}
	be.PutUint16(b[6:8], c)
	return b
}

// ICMP is a decoded ICMPv4/ICMPv6 message. Rest is the 4 bytes after the checksum, Body what follows.
type ICMP struct {
	Type, Code uint8
	Rest       [4]byte
	Body       []byte
	CsumOK     bool
}

func ParseICMP(ip IP, b []byte) (ICMP, error) {
	if len(b) < 8 {
		return ICMP{}, errors.New("short icmp")
	}
	m := ICMP{Type: b[0], Code: b[1]}
	copy(m.Rest[:], b[4:8])
	m.Body = append([]byte(nil), b[8:]...)
	if ip.V6 {
		m.CsumOK = Csum(b, pseudo(ip.Src, ip.Dst, 58, len(b))) == 0
	} else {
		m.CsumOK = Csum(b, 0) == 0
	}
	return m, nil
}

func BuildICMP(v6 bool, src, dst netip.Addr, m ICMP) []byte {
	b := make([]byte, 8+len(m.Body))
	b[0], b[1] = m.Type, m.Code
	copy(b[4:8], m.Rest[:])
	copy(b[8:], m.Body)
	if v6 {
		be.PutUint16(b[2:4], Csum(b, pseudo(src, dst, 58, len(b))))
	} else {
		be.PutUint16(b[2:4], Csum(b, 0))
	}
	return b
}

func (m ICMP) EchoID() uint16  { return be.Uint16(m.Rest[0:2]) }
func (m ICMP) EchoSeq() uint16 { return be.Uint16(m.Rest[2:4]) }
