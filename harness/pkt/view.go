package pkt

// View is the flat abstract record of a packet that goes into the trace (every field always present
// so that the TLA+ side can address fields without case analysis).
type View struct {
	V      int      `json:"v"`
	Src    string   `json:"src"`
	Dst    string   `json:"dst"`
	Proto  int      `json:"proto"`
	TTL    int      `json:"ipttl"`
	IPID   int      `json:"ipid"`
	IPOpt  int      `json:"ipopt"`
	LenOK  bool     `json:"len_ok"`
	CsumOK bool     `json:"csum_ok"`
	Kind   string   `json:"kind"` // echo_req echo_rep te du icmp_other tcp udp other malformed
	IType  int      `json:"itype"`
	ICode  int      `json:"icode"`
	EID    int      `json:"eid"`
	ESeq   int      `json:"eseq"`
	SPort  int      `json:"sport"`
	DPort  int      `json:"dport"`
	Seq    [2]int   `json:"seq"` // 32-bit values as [hi16, lo16]: TLC integers are 32-bit signed
	Ack    [2]int   `json:"ack"`
	Flags  int      `json:"flags"`
	Sack   [][2]int `json:"sack"`
	SackOK bool     `json:"sackperm"`
	TS     bool     `json:"ts"`
	ULen   int      `json:"ulen"` // v4: UDP length, v6: IPv6 payload length (the UDPv6 probe identifier)
	Q      bool     `json:"q"`    // ICMP error with a decodable quoted header + 8 bytes
	QSrc   string   `json:"q_src"`
	QDst   string   `json:"q_dst"`
	QProto int      `json:"q_proto"`
	QTTL   int      `json:"q_ttl"`
	QIPID  int      `json:"q_ipid"`
	QSPort int      `json:"q_sport"`
	QDPort int      `json:"q_dport"`
	QSeq   [2]int   `json:"q_seq"`
	QEID   int      `json:"q_eid"`
	QESeq  int      `json:"q_eseq"`
	QULen  int      `json:"q_ulen"`
	QL4    int      `json:"q_l4"`   // quoted L4 bytes present
	QHdr   bool     `json:"q_hdr"`  // the quoted IP header itself decodes
	QEcho  bool     `json:"q_echo"` // first quoted L4 byte is an echo request/reply type
	Size   int      `json:"size"`
}

// U32 splits a 32-bit value into 16-bit halves.
func U32(x uint32) [2]int { return [2]int{int(x >> 16), int(x & 0xffff)} }

// Describe decodes raw IP bytes into a View with the harness's own decoder.
func Describe(b []byte) View {
	v := View{Kind: "malformed", Size: len(b), Sack: [][2]int{}}
	ip, pl, err := ParseIP(b)
	if err != nil {
		return v
	}
	v.V = 4
	if ip.V6 {
		v.V = 6
	}
	v.Src, v.Dst = ip.Src.String(), ip.Dst.String()
	v.Proto, v.TTL, v.IPID, v.IPOpt = int(ip.Proto), int(ip.TTL), int(ip.ID), len(ip.Options)
	v.LenOK, v.CsumOK = ip.LenOK, ip.CsumOK
	if ip.V6 {
		v.ULen = ip.TotLen - 40
	}
	if !ip.V6 && ip.FlagsFO&0x1fff != 0 {
		v.Kind = "other"
		return v
	}
	switch {
	case ip.Proto == 6:
		t, err := ParseTCP(ip, pl)
		if err != nil {
			return v
		}
		v.Kind = "tcp"
		v.SPort, v.DPort, v.Seq, v.Ack, v.Flags = int(t.SPort), int(t.DPort), U32(t.Seq), U32(t.Ack), int(t.Flags)
		sl, sp, ts, _, _ := ParseTCPOptions(t.Options)
		for _, e := range sl {
			v.Sack = append(v.Sack, U32(e))
		}
		v.SackOK, v.TS = sp, ts
		v.CsumOK = v.CsumOK && t.CsumOK
	case ip.Proto == 17:
		u, err := ParseUDP(ip, pl)
		if err != nil {
			return v
		}
		v.Kind = "udp"
		v.SPort, v.DPort = int(u.SPort), int(u.DPort)
		if !ip.V6 {
			v.ULen = int(u.Len)
		}
		v.LenOK = v.LenOK && u.LenOK
		v.CsumOK = v.CsumOK && u.CsumOK
	case (ip.Proto == 1 && !ip.V6) || (ip.Proto == 58 && ip.V6):
		m, err := ParseICMP(ip, pl)
		if err != nil {
			return v
		}
		v.IType, v.ICode = int(m.Type), int(m.Code)
		v.CsumOK = v.CsumOK && m.CsumOK
		isErr := false
		switch {
		case !ip.V6 && m.Type == 8, ip.V6 && m.Type == 128:
			v.Kind = "echo_req"
			v.EID, v.ESeq = int(m.EchoID()), int(m.EchoSeq())
		case !ip.V6 && m.Type == 0, ip.V6 && m.Type == 129:
			v.Kind = "echo_rep"
			v.EID, v.ESeq = int(m.EchoID()), int(m.EchoSeq())
		case !ip.V6 && m.Type == 11, ip.V6 && m.Type == 3:
			v.Kind = "te"
			isErr = true
		case !ip.V6 && m.Type == 3, ip.V6 && m.Type == 1:
			v.Kind = "du"
			isErr = true
		default:
			v.Kind = "icmp_other"
		}
		if isErr {
			describeQuote(&v, ip.V6, m.Body)
		}
	default:
		v.Kind = "other"
	}
	return v
}

func describeQuote(v *View, v6 bool, body []byte) {
	// The quoted header is laid out according to the OUTER family. For IPv4 the version nibble of the quote
	// is not demanded (devices and decoders do not validate it); the header length nibble must be sane.
	q := body
	if !v6 && len(q) >= 1 {
		q = append([]byte{4<<4 | q[0]&0xf}, q[1:]...)
	}
	qip, qpl, err := ParseIP(q)
	if err != nil || qip.V6 != v6 {
		return
	}
	// the quote is usually truncated: re-slice without trusting the stated length
	qpl = q[qip.HdrLen:]
	v.QSrc, v.QDst = qip.Src.String(), qip.Dst.String()
	v.QProto, v.QTTL, v.QIPID = int(qip.Proto), int(qip.TTL), int(qip.ID)
	if v6 {
		v.QULen = qip.TotLen - 40
	}
	v.QL4 = len(qpl)
	v.QHdr = true
	if len(qpl) < 8 {
		return
	}
	v.Q = true
	if v6 {
		v.QEcho = qpl[0] == 128 || qpl[0] == 129
	} else {
		v.QEcho = qpl[0] == 8 || qpl[0] == 0
	}
	// raw interpretation of the first 8 quoted L4 bytes under every protocol's layout; the TLA+ side
	// picks the fields that are meaningful for the variant
	v.QSPort, v.QDPort = int(be.Uint16(qpl[0:2])), int(be.Uint16(qpl[2:4]))
	v.QSeq = U32(be.Uint32(qpl[4:8]))
	v.QEID, v.QESeq = int(be.Uint16(qpl[4:6])), int(be.Uint16(qpl[6:8]))
	if !v6 {
		v.QULen = int(be.Uint16(qpl[4:6]))
	}
}
