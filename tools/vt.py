"""Shared machinery of the checks: harness build/run, TLC generation, trace observation, verdicts, evidence."""
import fnmatch, hashlib, json, os, re, shutil, subprocess, sys, tempfile, time
from concurrent.futures import ThreadPoolExecutor

sys.path.insert(0, os.path.dirname(os.path.abspath(__file__)))
from tlcrun import run_tlc, filtered

VERIF = os.path.abspath(os.path.join(os.path.dirname(os.path.abspath(__file__)), '..'))
REPO = '/repo'
NCPU = os.cpu_count() or 4

def goenv():
    e = dict(os.environ)
    e['GOFLAGS'] = '-mod=mod'
    e['GOPROXY'] = 'off'
    e.pop('GOTOOLCHAIN', None)   # the repository needs go1.25.6 from the module cache (toolchain auto)
    e.pop('GOSUMDB', None)
    return e

class Infra(Exception):
    """Anything that is not behaviour of the code under test: exit 2, never a VIOLATION."""

class Ctx:
    def __init__(self, prop, tier, seed):
        self.prop, self.tier, self.seed = prop, tier, seed
        self.t0 = time.time()
        self.scratch = tempfile.mkdtemp(prefix='vt-%s-' % prop)
        self.bin = None
        self.racebin = None
        self.states = 0; self.transitions = 0
        self.design = []          # per TLC design run: dict
        self.evaluations = 0; self.validated = 0; self.nontrivial = set()
        self.samples = []
        self.notes = []
        self.violations = []      # (prop, label, scen id, replay path)
        self.known = []
        self.assumptions = []
        self.extra = {}
    def cleanup(self):
        if os.environ.get('VT_KEEP'):
            print('scratch kept at', self.scratch)
            return
        shutil.rmtree(self.scratch, ignore_errors=True)
    def quick(self):
        return self.tier == 'quick'

def sh(cmd, **kw):
    return subprocess.run(cmd, stdout=subprocess.PIPE, stderr=subprocess.STDOUT, text=True, errors='replace', **kw)

def build_harness(ctx, race=False):
    hdir = os.path.join(VERIF, 'harness')
    shutil.copy(os.path.join(REPO, 'go.sum'), os.path.join(hdir, 'go.sum'))
    out = os.path.join(ctx.scratch, 'vt-race.test' if race else 'vt.test')
    cmd = ['go', 'test', '-c', '-tags', 'verif', '-o', out]
    if race:
        cmd.append('-race')
    cmd.append('.')
    p = sh(cmd, cwd=hdir, env=goenv())
    if p.returncode != 0 or not os.path.exists(out):
        # a build failure of the code under test (with hooks on) is not a property verdict
        raise Infra('harness build failed:\n' + p.stdout[-3000:])
    if race:
        ctx.racebin = out
    else:
        ctx.bin = out
    return out

NETNS = os.path.join(VERIF, 'tools', 'netns.sh')
_netns_ok = None
def netns_ok():
    global _netns_ok
    if _netns_ok is None:
        p = sh([NETNS, 'true'])
        _netns_ok = p.returncode == 0
    return _netns_ok

def run_harness_file(ctx, scen_path, out_path, binary=None, timeout=1800, env=None):
    """Runs the harness over one scenario file, restarting after a crash of the process (a panic in a
    goroutine of the code under test kills the process; the scenario in progress gets a Crash event)."""
    binary = binary or ctx.bin
    if not netns_ok():
        raise Infra('network namespaces unavailable (unshare -n failed)')
    skip = 0
    total = sum(1 for l in open(scen_path) if l.strip())
    parts = []
    guard = 0
    e = goenv()
    if env:
        e.update(env)
    while skip < total:
        guard += 1
        if guard > 200:
            raise Infra('harness keeps crashing')
        part = '%s.part%d' % (out_path, guard)
        p = sh([NETNS, binary, '-test.run', 'TestScenarios', '-test.timeout', '%ds' % timeout, '-vt.in', scen_path, '-vt.out', part, '-vt.skip', str(skip)],
               env=e, timeout=timeout + 60)
        parts.append(part)
        lines = open(part).read().splitlines() if os.path.exists(part) else []
        begun = [json.loads(l) for l in lines if '"event":"Begin"' in l]
        done = sum(1 for l in lines if '"event":"Return"' in l)
        if p.returncode == 0:
            break
        if not begun:
            raise Infra('harness failed before the first scenario:\n' + p.stdout[-3000:])
        last = begun[-1]
        if done >= len(begun):
            raise Infra('harness failed outside a scenario:\n' + p.stdout[-3000:])
        # the process died inside scenario `last`
        msg = ''
        m = re.search(r'(panic: .*|fatal error: .*)', p.stdout)
        if m:
            msg = m.group(1)[:300]
        racy = 'WARNING: DATA RACE' in p.stdout
        with open(part, 'a') as f:
            f.write(json.dumps({'event': 'Crash', 'scen': last['scen'], 'n': 10**6, 't': 0, 'msg': msg, 'race': racy,
                                'stack': p.stdout[-6000:] if racy or msg else p.stdout[-1500:]}) + '\n')
        skip = last['idx']
    with open(out_path, 'w') as out:
        for part in parts:
            if os.path.exists(part):
                out.write(open(part).read())
                os.remove(part)
    return out_path

def run_harness(ctx, scenarios, name, binary=None, shards=None, env=None):
    """Shards scenarios (list of dicts) over processes; returns list of trace file paths (one per shard)."""
    if not scenarios:
        return []
    shards = shards or min(NCPU, max(1, len(scenarios) // 8))
    # keep twins together: a scenario with 'twin' must directly follow its twin
    groups = []
    gof = {}
    for s in scenarios:
        if not s.get('twin'):
            gof[s['id']] = [s]
            groups.append(gof[s['id']])
    for s in scenarios:
        if s.get('twin'):
            if s['twin'] not in gof:
                raise Infra('scenario %s names an unknown twin %s' % (s['id'], s['twin']))
            gof[s['twin']].append(s)
    # split large twin groups so that they spread over the shards: each part re-runs its own copy of the clean twin
    split = []
    for g in groups:
        if len(g) <= 13:
            split.append(g)
            continue
        clean, rest = g[0], g[1:]
        for k in range(0, len(rest), 12):
            c = dict(clean)
            if k > 0:
                c['id'] = '%s#%d' % (clean['id'], k // 12)
            part = [c]
            for n in rest[k:k + 12]:
                n = dict(n); n['twin'] = c['id']
                part.append(n)
            split.append(part)
    groups = split
    buckets = [[] for _ in range(shards)]
    for i, g in enumerate(groups):
        buckets[i % shards].extend(g)
    jobs = []
    for i, b in enumerate(buckets):
        if not b:
            continue
        sp = os.path.join(ctx.scratch, '%s.%d.scen.ndjson' % (name, i))
        with open(sp, 'w') as f:
            for s in b:
                f.write(json.dumps(s) + '\n')
        jobs.append((sp, os.path.join(ctx.scratch, '%s.%d.trace.ndjson' % (name, i))))
    with ThreadPoolExecutor(max_workers=len(jobs)) as ex:
        futs = [ex.submit(run_harness_file, ctx, sp, tp, binary, 1800, env) for sp, tp in jobs]
        out = [f.result() for f in futs]
    for tp in out:
        crash_to_return(ctx, tp)
    return out

def adjudicate_hangs(ctx, by_id, name):
    """A scenario that made no progress for 150 s of real time under the virtual clock is either a harness artefact (a lock held across
    a timed wait freezes a synctest bubble, not a real clock) or a call that really never returns. It is re-executed on the REAL clock:
    there the call returns (the scenario is judged like any other), or it is still stuck after its time limit - a hang of the real code,
    reported in the trace as a Return with hung = true (C08 judges it; every other property stays inconclusive)."""
    hangs = [h for h in ctx.extra.get('hangs', []) if h in by_id and not by_id[h].get('realclock')]
    if not hangs:
        return []
    group = []
    for h in hangs[:4]:
        s = by_id[h]
        if s.get('twin') and s['twin'] in by_id and all(g['id'] != s['twin'] for g in group):
            group.append(by_id[s['twin']])
        r = dict(s); r['realclock'] = True
        by_id[h] = r
        group.append(r)
    traces = run_harness(ctx, group, name + '-realclock', shards=1)
    evs = read_traces(traces)
    still = []
    for h in hangs[:4]:
        ret = [e for e in evs.get(h, []) if e.get('event') == 'Return']
        if not ret or ret[0].get('hung'):
            still.append(h)
    left = still + hangs[4:]
    ctx.extra['hangs'] = left
    if left:
        ctx.extra['inconclusive'] = 'scenario %s does not return on the real clock either (a hang of the code under test): see the check of C08' % left[0]
        ctx.notes.append('hangs on the real clock too: %s' % ', '.join(left[:4]))
    else:
        ctx.extra.pop('inconclusive', None)
        ctx.notes.append('scenario(s) %s froze the virtual clock and were judged on the real clock instead' % ', '.join(hangs))
    return traces

CRASH_PROPS = ('C09', 'C10', 'C19')      # the properties that state "the process never crashes"

def crash_to_return(ctx, tp):
    """A panic in a goroutine of the code under test kills the harness process; the scenario in progress then has only its
    Begin line plus the Crash line added by run_harness_file. Give it a Params (entry = crash) and a Return (panic) so that
    the observer sees it: the no-crash properties report it, every other check is inconclusive (exit 2) rather than silent."""
    lines = open(tp).read().splitlines()
    if not any('"Crash"' in l for l in lines):
        return
    outl = []
    for l in lines:
        e = json.loads(l) if '"Crash"' in l else None
        if e is None or e.get('event') != 'Crash':
            outl.append(l)
            continue
        if e.get('race'):
            outl.append(l)       # race reports are handled by the C14 check itself
            continue
        if 'real-time watchdog' in (e.get('msg') or ''):
            # not a crash of the code: the scenario froze the virtual clock (or is extremely slow); it cannot be judged - inconclusive
            # for every property unless another scenario shows a violation
            ctx.extra.setdefault('hangs', []).append(e['scen'])
            ctx.extra['inconclusive'] = 'scenario %s made no progress in real time (virtual clock frozen?): inconclusive' % e['scen']
            outl = [x for x in outl if json.loads(x).get('scen') != e['scen']]
            continue
        ctx.extra.setdefault('crashes', []).append({'scenario': e['scen'], 'panic': e['msg']})
        outl.append(json.dumps(dict(event='Params', scen=e['scen'], n=1, t=0, variant='crash', entry='crash')))
        outl.append(json.dumps(dict(event='Return', scen=e['scen'], n=2, t=0, ok=False, panic=e['msg'] or 'process died', has_result=False)))
    open(tp, 'w').write('\n'.join(outl) + '\n')

def tlc_generate(ctx, module, gen, n=0, extra_env=None):
    out = os.path.join(ctx.scratch, 'gen-%s.ndjson' % gen.replace('/', '_'))
    env = {'VT_GEN': gen, 'VT_TIER': ctx.tier, 'VT_OUT': out, 'VT_N': str(n)}
    if extra_env:
        env.update(extra_env)
    r = run_tlc(module, env=env, workers=1, timeout=900, extra=['-seed', str(ctx.seed)], heap='4g')
    if not r.ok() or not os.path.exists(out):
        raise Infra('TLC generator %s/%s failed:\n%s' % (module, gen, filtered(r.out, 40)))
    scen = [json.loads(l) for l in open(out) if l.strip()]
    card = None
    for p in r.prints:
        m = re.match(r'<<"GEN", "[^"]*", (\d+), (\d+)>>', p)
        if m:
            card = (int(m.group(1)), int(m.group(2)))
    ctx.extra.setdefault('generated', {})[gen] = {'space': card[0] if card else len(scen), 'picked': len(scen)}
    return scen

def tlc_design(ctx, module, cfg=None, timeout=1200, workers='auto', env=None, expect_ok=True, simulate=None, label=None):
    """Exhaustive (or simulated) TLC run of a design spec; accumulates states/transitions."""
    r = run_tlc(module, cfg=cfg, env=env, workers=workers, timeout=timeout, simulate=simulate)
    d = {'module': module, 'cfg': cfg or module + '.cfg', 'generated': r.generated, 'distinct': r.distinct, 'depth': r.depth,
         'wall_s': round(r.wall, 1), 'ok': r.ok(), 'violated': r.violated}
    if label:
        d['label'] = label
    ctx.design.append(d)
    ctx.states += r.distinct
    ctx.transitions += r.generated
    if r.timeout:
        raise Infra('TLC design check %s timed out after %ds' % (module, timeout))
    if expect_ok and not r.ok():
        raise Infra('TLC design check %s/%s failed (the spec no longer describes a design with the property):\n%s'
                    % (module, cfg, filtered(r.out, 60)))
    return r

def tlaps_proof(ctx, module, deps, timeout=600):
    """Checks a TLAPS proof module (tlapm, all back ends) in a scratch copy; records it among the design runs."""
    import shutil, tempfile, time as _t
    d = tempfile.mkdtemp(prefix='vt-tlaps-')
    try:
        for m in [module] + list(deps):
            shutil.copy(os.path.join(VERIF, 'spec', m + '.tla'), d)
        t0 = _t.time()
        # (tlapm runs SANY, which unpacks its standard modules into java.io.tmpdir: keep that inside the scratch directory)
        p = sh(['timeout', str(timeout), 'tlapm', '--threads', str(NCPU), module + '.tla'], cwd=d,
               env=dict(os.environ, TMPDIR=d, JAVA_TOOL_OPTIONS='-Djava.io.tmpdir=' + d))
        m = re.search(r'All (\d+) obligations? proved', p.stdout)
        ctx.design.append({'module': module, 'cfg': 'tlapm (TLA+ proof system: SMT, Zenon, Isabelle back ends)', 'obligations_proved': int(m.group(1)) if m else 0,
                           'wall_s': round(_t.time() - t0, 1), 'ok': bool(m), 'label': 'unbounded proof'})
        if not m:
            raise Infra('the TLAPS proof %s is not accepted any more (the definitions it is about have changed?):\n%s' % (module, p.stdout[-1500:]))
    finally:
        shutil.rmtree(d, ignore_errors=True)

def observe(ctx, traces, props, module='TraceObs'):
    """Runs the L1 observer over trace files; returns list of (prop, scen) violations."""
    if not traces:
        return []
    def one(tp):
        n = sum(1 for _ in open(tp))
        r = run_tlc(module, env={'VT_TRACE': tp, 'VT_PROPS': ','.join(list(props) + ['L2'])}, workers=1, timeout=1800, heap='3g')
        if not r.ok():
            raise Infra('trace observer failed on %s:\n%s' % (tp, filtered(r.out, 60)))
        if r.distinct != n + 1:
            raise Infra('trace observer consumed %d of %d events of %s' % (r.distinct - 1, n, tp))
        v = []
        for p in r.prints:
            m = re.match(r'<<"(L1|L2)", "([^"]+)", "((?:[^"\\]|\\.)*)", (\d+)>>$', p)
            if m:
                sid = m.group(3).replace('\\"', '"').replace('\\\\', '\\')
                v.append(('L2', sid) if m.group(1) == 'L2' else (m.group(2), sid))
            elif p.startswith('<<"L1"') or p.startswith('<<"L2"'):
                raise Infra('unparseable observer line: ' + p[:200])
        # safety net: every report the observer printed must have been parsed (TLC pretty-prints long tuples over several lines)
        raw = len(re.findall(r'<<\s*"L[12]",', r.out))
        if raw != len(v):
            raise Infra('observer printed %d report(s) but %d were parsed (%s)' % (raw, len(v), tp))
        return v, r.distinct
    out = []
    with ThreadPoolExecutor(max_workers=min(len(traces), NCPU)) as ex:
        for v, st in ex.map(one, traces):
            for pr, sid in v:
                if pr == 'L2':
                    # spec drift: the design no longer predicts the code's output although no listed property
                    # is violated on this trace -> a note, never a verdict
                    ctx.extra.setdefault('drift_scenarios', [])
                    if sid not in ctx.extra['drift_scenarios']:
                        ctx.extra['drift_scenarios'].append(sid)
                else:
                    out.append((pr, sid))
            ctx.extra['observer_states'] = ctx.extra.get('observer_states', 0) + st
    ctx.extra['spec_drift'] = len(ctx.extra.get('drift_scenarios', []))
    return out

def read_traces(traces):
    """scen id -> list of events"""
    m = {}
    for tp in traces:
        for l in open(tp):
            if not l.strip():
                continue
            e = json.loads(l)
            m.setdefault(e.get('scen', ''), []).append(e)
    return m

# ---------------------------------------------------------------- known findings / verdict
def load_known():
    p = os.path.join(VERIF, 'known_findings.jsonl')
    ks = []
    if os.path.exists(p):
        for l in open(p):
            l = l.strip()
            if l and not l.startswith('#'):
                ks.append(json.loads(l))
    return ks

def save_replay(ctx, prop, scen_group, events, note=''):
    h = hashlib.sha1(json.dumps(scen_group, sort_keys=True).encode()).hexdigest()[:12]
    d = os.path.join(VERIF, 'replays', prop, h)
    os.makedirs(d, exist_ok=True)
    with open(os.path.join(d, 'scenario.ndjson'), 'w') as f:
        for s in scen_group:
            f.write(json.dumps(s) + '\n')
    with open(os.path.join(d, 'trace.ndjson'), 'w') as f:
        for e in events:
            f.write(json.dumps(e) + '\n')
    with open(os.path.join(d, 'README.txt'), 'w') as f:
        f.write('property %s\nreplay: ./check %s --replay %s\n%s\n' % (prop, prop, d, note))
    return d

def shard_order(traces):
    """scenario id -> ids that ran before it in the same harness process (one trace file per process)"""
    pred = {}
    for tp in traces:
        seen = []
        for l in open(tp):
            if '"event":"Begin"' in l or '"event": "Begin"' in l:
                sid = json.loads(l)['scen']
                pred[sid] = list(seen)
                seen.append(sid)
    return pred

def confirm_and_report(ctx, scen_by_id, violations, props, observer='TraceObs', rerun=None, history=None):
    """violations: list of (prop, scen id). Re-executes each violating scenario (with its twin) alone; a
    violation that reproduces is reported (VIOLATION or KNOWN-FINDING); one that does not is inconclusive."""
    known = [k for k in load_known() if k.get('status') == 'known']
    seen = set()
    mine = [(p, sid) for p, sid in violations if p == ctx.prop]
    ctx.extra['l1_violating_scenarios'] = len(mine)
    for prop, sid in violations:
        if prop != ctx.prop:
            continue
        if len(ctx.violations) >= 6:
            # enough replay artefacts; the remaining violating scenarios are counted, not re-executed
            ctx.notes.append('%d further violating scenario(s) not re-executed' % (len(mine) - len(seen)))
            break
        s = scen_by_id.get(sid)
        if s is None:
            raise Infra('observer reported unknown scenario %r' % sid)
        label = s.get('label') or sid
        if (prop, label) in seen:
            continue
        seen.add((prop, label))
        group = [s]
        if s.get('twin') and s['twin'] in scen_by_id:
            group = [scen_by_id[s['twin']], s]
        # re-execution (deterministic under the virtual clock; a violation that hinges on a same-instant tie may need
        # another attempt to take the same order)
        again = []
        for attempt in range(3):
            if rerun is None:
                traces = run_harness(ctx, group, 'confirm-%d-%d' % (len(seen), attempt), shards=1)
            else:
                traces = rerun(group, 'confirm-%d-%d' % (len(seen), attempt))
            again = observe(ctx, traces, props, module=observer)
            if (prop, sid) in again:
                break
        if (prop, sid) not in again and history and history.get(sid) and rerun is None:
            # the behaviour may depend on what the same PROCESS did before (package-level state that survives between requests):
            # re-execute with the scenarios that preceded it in its process, the nearest ones first
            preds = [scen_by_id[x] for x in history[sid] if x in scen_by_id]
            for k in (3, 12, len(preds)):
                grp = []
                for x in preds[-k:] + group:
                    # a predecessor that is compared with a twin brings the twin along
                    if x.get('twin') and x['twin'] in scen_by_id and all(y['id'] != x['twin'] for y in grp):
                        grp.append(scen_by_id[x['twin']])
                    if all(y['id'] != x['id'] for y in grp):
                        grp.append(x)
                traces = run_harness(ctx, grp, 'confirm-hist-%d-%d' % (len(seen), k), shards=1)
                again = observe(ctx, traces, props, module=observer)
                if (prop, sid) in again:
                    group = grp
                    ctx.notes.append('violation of %s on %s reproduces only after the %d scenario(s) that preceded it in the same process (history-dependent)' % (prop, sid, len(grp) - 1))
                    break
                if k >= len(preds):
                    break
        if (prop, sid) not in again:
            # not reproduced in 3 re-executions: this one is inconclusive; go on with the other violating scenarios
            ctx.notes.append('violation of %s on %s did not reproduce on re-execution' % (prop, sid))
            ctx.extra.setdefault('unreproduced', []).append(sid)
            seen.discard((prop, label))
            if len(ctx.extra['unreproduced']) > 12:
                break
            continue
        evs = read_traces(traces)
        allev = [e for g in group for e in evs.get(g['id'], [])]
        kf = [k for k in known if k['property'] == prop and fnmatch.fnmatchcase(label, k['signature'])]
        if kf:
            ctx.known.append((prop, label, kf[0].get('what', '')))
            continue
        path = save_replay(ctx, prop, group, allev, 'label: %s' % label)
        ctx.violations.append((prop, label, sid, path))

def check_unreproduced(ctx):
    if ctx.extra.get('unreproduced') and not ctx.violations and not ctx.known:
        raise Infra('%d L1 violation(s) did not reproduce on replay and none did (inconclusive), e.g. %s' % (len(ctx.extra['unreproduced']), ctx.extra['unreproduced'][0]))

def write_evidence(ctx, level, rule, exhaustive=False, trusted=None):
    check_unreproduced(ctx)
    cov = {
        'evaluations': ctx.evaluations,
        'distinct_nontrivial': len(ctx.nontrivial),
        'rule': rule,
        'samples': ctx.samples[:5] if ctx.samples else [{'note': 'no case executed'}],
        'states': ctx.states,
        'transitions': ctx.transitions,
        'traces_validated_against_impl': ctx.validated,
        'exhaustive': exhaustive,
        'design_runs': ctx.design,
        'known_findings_hit': [list(k) for k in ctx.known],
        'spec_drift': ctx.extra.get('spec_drift', 0),
    }
    cov.update({k: v for k, v in ctx.extra.items() if k not in cov})
    if trusted:
        cov['trusted_base'] = trusted
    ev = {
        'property_id': ctx.prop, 'tier': ctx.tier, 'seed': ctx.seed, 'level': level, 'coverage': cov,
        'assumptions': ctx.assumptions, 'wall_s': round(time.time() - ctx.t0, 1), 'violations': len(ctx.violations),
        'notes': ctx.notes,
    }
    os.makedirs(os.path.join(VERIF, 'evidence'), exist_ok=True)
    with open(os.path.join(VERIF, 'evidence', ctx.prop + '.json'), 'w') as f:
        json.dump(ev, f, indent=1)

def finish(ctx):
    for sid in ctx.extra.get('drift_scenarios', [])[:10]:
        print('NOTE spec-drift: the design spec does not predict the output of scenario %s' % sid)
    for prop, label, what in ctx.known:
        print('KNOWN-FINDING: property=%s %s (%s)' % (prop, label, what))
    for prop, label, sid, path in ctx.violations:
        print('VIOLATION property=%s replay=%s' % (prop, path))
        print('  case: %s (%s)' % (label, sid))
    return 1 if ctx.violations else 0
