#!/bin/sh
# import_r3.sh <Cxx> : copies the round-4 seeded changes of a sub-agent (/tmp/mut4/Cxx/MUT/m1, m2) to /verif/seeded/Cxx-r4m<i>
P=$1
for i in 1 2; do
  S=/tmp/mut4/$P/MUT/m$i; D=/verif/seeded/$P-r4m$i
  [ -f $S/patch.diff ] || { echo "missing $S"; continue; }
  mkdir -p $D; cp $S/* $D/; echo "imported $D: $(ls $D | tr '\n' ' ')"
done
