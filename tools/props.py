"""Per-property decision procedures (see DESIGN.md section 5)."""
import json, os
import vt
from vt import Infra

def _crashes(evs_by_scen):
    return {sid: [e for e in evs if e['event'] == 'Crash'] for sid, evs in evs_by_scen.items() if any(e['event'] == 'Crash' for e in evs)}

def wire_family(ctx, prop, scenarios, rule, nontrivial=None, observe_props=None):
    """Executes TLC-generated wire scenarios on the real entry points, validates every trace with the L1
    observer, confirms and reports violations."""
    ctx.extra['rule'] = rule
    if ctx.bin is None:
        vt.build_harness(ctx)
    ids = set()
    for s in scenarios:
        if s['id'] in ids:
            raise Infra('duplicate scenario id ' + s['id'])
        ids.add(s['id'])
    traces = vt.run_harness(ctx, scenarios, prop)
    by_id = {s['id']: s for s in scenarios}
    evs = vt.read_traces(traces)
    ctx.evaluations += len(scenarios)
    # a crash of the process inside a scenario is a panic of the code under test: give the scenario a
    # synthetic Return so that the observer sees it (ok = FALSE, panic # "")
    crashed = _crashes(evs)
    if crashed:
        for tp in traces:
            lines = open(tp).read().splitlines()
            out = []
            for l in lines:
                if '"event":"Crash"' in l:
                    e = json.loads(l)
                    out.append(json.dumps(dict(event='Return', scen=e['scen'], n=e['n'], t=0, ok=False, panic=e['msg'] or 'process died',
                                               err=dict(nil=False, msg='crash', canceled=False, deadline=False, notsupported=False, causes=[]),
                                               has_result=False, hops=[], src='', sport=0, dst='', dport=0, goroutines=0, gsample='',
                                               opened=0, closed_once=0, bad_handles=[], accepts=0, race=e.get('race', False))))
                else:
                    out.append(l)
            open(tp, 'w').write('\n'.join(out) + '\n')
        evs = vt.read_traces(traces)
    for sid, es in evs.items():
        if any(e['event'] == 'HarnessError' for e in es):
            raise Infra('harness error in %s: %s' % (sid, [e for e in es if e['event'] == 'HarnessError'][0]))
    viol = vt.observe(ctx, traces, observe_props or [prop])
    ctx.validated += len(scenarios)
    for s in scenarios:
        es = evs.get(s['id'], [])
        if nontrivial is None or nontrivial(s, es):
            ctx.nontrivial.add(s.get('label') or s['id'])
    if len(ctx.samples) < 4:
        for s in scenarios[:2]:
            es = evs.get(s['id'], [])
            ret = [e for e in es if e['event'] == 'Return']
            ctx.samples.append({'scenario': s, 'events': len(es),
                                'return': {k: ret[0][k] for k in ('ok', 'hops', 't') if ret and k in ret[0]}})
    # process-level panics count against every property evaluated on that scenario via C10/C19; here: only if asked
    vt.confirm_and_report(ctx, by_id, viol, observe_props or [prop])
    return evs

def delivered_something(s, es):
    return any(e['event'] == 'Deliver' for e in es)

# ---------------------------------------------------------------------------------------------
def check_C01(ctx):
    vt.tlc_design(ctx, 'MatcherMC', label='matchers: C01/C02/C04 design invariants over the perturbation lattice')
    scen = vt.tlc_generate(ctx, 'GenWire', 'C01', 0)
    wire_family(ctx, 'C01', scen,
                rule='one scenario per (variant, strict/relaxed, identifier base, TTL range, single-field perturbation or '
                     'unsent/early/looped genuine packet, injection instant) enumerated by TLC from GenWire!C01All; executed on the real '
                     'entry point; non-trivial = the packet under test was delivered to the capture handle; distinct by abstract label',
                nontrivial=delivered_something)
    vt.write_evidence(ctx, 'model_checking', ctx_rule(ctx), exhaustive=True)

def ctx_rule(ctx):
    return ctx.extra.get('rule', '')

CHECKS = {
    'C01': check_C01,
}

def replay(ctx, path):
    scen = [json.loads(l) for l in open(os.path.join(path, 'scenario.ndjson')) if l.strip()]
    vt.build_harness(ctx)
    traces = vt.run_harness(ctx, scen, 'replay', shards=1)
    viol = vt.observe(ctx, traces, [ctx.prop])
    for p, sid in viol:
        print('VIOLATION property=%s replay=%s' % (p, path))
    print('replayed %d scenario(s): %d violation(s)' % (len(scen), len(viol)))
    return 1 if viol else 0
