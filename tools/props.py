"""Per-property decision procedures (see DESIGN.md section 5)."""
import json, os
import vt
from vt import Infra

def _crashes(evs_by_scen):
    return {sid: [e for e in evs if e['event'] == 'Crash'] for sid, evs in evs_by_scen.items() if any(e['event'] == 'Crash' for e in evs)}

def wire_family(ctx, prop, scenarios, rule, nontrivial=None, observe_props=None):
    """Executes TLC-generated wire scenarios on the real entry points, validates every trace with the L1
    observer, confirms and reports violations."""
    ctx.extra['rule'] = rule
    if ctx.bin is None:
        vt.build_harness(ctx)
    ids = set()
    for s in scenarios:
        if s['id'] in ids:
            raise Infra('duplicate scenario id ' + s['id'])
        ids.add(s['id'])
    traces = vt.run_harness(ctx, scenarios, prop)
    by_id = {s['id']: s for s in scenarios}
    traces = traces + vt.adjudicate_hangs(ctx, by_id, prop)
    evs = vt.read_traces(traces)
    ctx.evaluations += len(scenarios)
    for sid, es in evs.items():
        if any(e['event'] == 'HarnessError' for e in es):
            raise Infra('harness error in %s: %s' % (sid, [e for e in es if e['event'] == 'HarnessError'][0]))
    viol = vt.observe(ctx, traces, observe_props or [prop])
    if ctx.extra.get('crashes') and prop not in vt.CRASH_PROPS:
        c = ctx.extra['crashes'][0]
        # inconclusive for this property (exit 2 at the end) unless another scenario shows a violation of it
        ctx.extra['inconclusive'] = 'the process crashed in scenario %s (%s): inconclusive for %s, see the checks of %s' % (c['scenario'], c['panic'], prop, '/'.join(vt.CRASH_PROPS))
    ctx.validated += len(scenarios)
    for s in scenarios:
        es = evs.get(s['id'], [])
        if nontrivial is None or nontrivial(s, es):
            ctx.nontrivial.add(s.get('label') or s['id'])
    if len(ctx.samples) < 4:
        for s in scenarios[:2]:
            es = evs.get(s['id'], [])
            ret = [e for e in es if e['event'] == 'Return']
            ctx.samples.append({'scenario': s, 'events': len(es),
                                'return': {k: ret[0][k] for k in ('ok', 'hops', 't') if ret and k in ret[0]}})
    # process-level panics count against every property evaluated on that scenario via C10/C19; here: only if asked
    vt.confirm_and_report(ctx, by_id, viol, observe_props or [prop], history=vt.shard_order(traces))
    return evs

def delivered_something(s, es):
    return any(e['event'] == 'Deliver' for e in es)

UNIT_US = 10000   # one abstract time unit of the engine specs = 10 ms of virtual time

def engine_outcomes(ctx, module, cfg, engine, timeout=1500, simulate=None):
    """Runs the engine design spec (all invariants) and collects, per environment script, the set of outputs the
    design allows (printed at every terminal state)."""
    import re
    r = vt.run_tlc(module, cfg=cfg, env={'VT_EMIT': '1'}, timeout=timeout, simulate=simulate)
    ctx.design.append({'module': module, 'cfg': cfg, 'generated': r.generated, 'distinct': r.distinct, 'depth': r.depth,
                       'wall_s': round(r.wall, 1), 'ok': r.ok(), 'violated': r.violated})
    ctx.states += r.distinct; ctx.transitions += r.generated
    if r.timeout:
        raise Infra('TLC %s/%s timed out' % (module, cfg))
    if not r.ok():
        raise Infra('engine design check %s/%s failed:\n%s' % (module, cfg, vt.filtered(r.out, 50)))
    allowed = {}
    for line in r.out.splitlines():
        if not line.startswith('<<"OUT", '):
            continue
        m = re.match(r'^<<"OUT", "(.*)", "(.*)">>$', line)
        if not m:
            raise Infra('unparseable OUT line: ' + line[:200])
        un = lambda x: json.loads(x.encode().decode('unicode_escape'))
        scr, out = un(m.group(1)), un(m.group(2))
        key = json.dumps(scr, sort_keys=True)
        allowed.setdefault(key, (scr, []))[1].append(out)
    return allowed

def _norm_spec_out(par, out):
    if not out['ok']:
        return ('err', out['err'] == 'canceled')
    hops = []
    for k, h in enumerate(out['hops']):
        if h.get('k') == 'hop':
            hops.append((par['min'] + k, h['ip'], h['dest'], h['rtt'] * UNIT_US))
        else:
            hops.append((par['min'] + k, None, False, 0))
    return ('ok', tuple(hops))

def _norm_real_out(ret):
    if not ret['ok']:
        return ('err', bool(ret['err']['canceled']))
    hops = []
    for h in ret['hops']:
        if h['addr']:
            a = h['addr'].split('.')
            hops.append((h['ttl'], int(a[2]) * 256 + int(a[3]), h['dest'], h['rtt_us']))
        else:
            hops.append((h['ttl'], None, False, 0))
    return ('ok', tuple(hops))

def trace_engine(ctx, mc_cfg, traces, drift, module='TraceEngine'):
    """Event-level trace validation (L2): every recorded line of the real parallel engine must be a step of EngineParallel.tla
    (TraceEngine.tla: logged events bound to spec actions, internal actions silent). A rejected trace is spec drift."""
    import re, shutil
    consts = {}
    for line in open(os.path.join(vt.VERIF, 'spec', mc_cfg)):
        m = re.match(r'\s*(MinTTL|MaxTTL|Timeout|Poll|Delay) = (\d+)', line)
        if m:
            consts[m.group(1)] = m.group(2)
    cfgname = 'TraceEngine_run.cfg'
    cfgtext = ('SPECIFICATION TSpec\nCONSTANTS\n' + ''.join('  %s = %s\n' % kv for kv in consts.items()) +
               '  Scripts = {}\n  CancelTimes = {}\n' + ('  SupportsParallel = TRUE\n' if module == 'TraceEngine' else '') +
               'CONSTRAINT HighWater\nPOSTCONDITION TraceAccepted\nCHECK_DEADLOCK FALSE\n')
    total = 0
    from concurrent.futures import ThreadPoolExecutor
    def one(tp):
        return tp, vt.run_tlc(module, cfg=cfgname, env={'VT_TRACE': tp}, workers=1, timeout=900, heap='2g', deque=True, files={cfgname: cfgtext})
    with ThreadPoolExecutor(max_workers=min(len(traces), vt.NCPU)) as ex:
        results = list(ex.map(one, traces))
    for tp, r in results:
        total += r.distinct
        if r.timeout:
            raise Infra('TraceEngine timed out on ' + tp)
        if r.rc != 0:
            stuck = [p for p in r.prints if p.startswith('<<"L2E"')]
            ctx.notes.append('event-level trace validation rejected %s (rc=%s): %s' % (os.path.basename(tp), r.rc, (stuck or [vt.filtered(r.out, 8)[-300:]])[0]))
            drift.append('L2E/' + os.path.basename(tp))
            if os.environ.get('VT_KEEP'):
                import shutil
                shutil.copy(tp, '/tmp/vt/rejected.' + os.path.basename(tp))
    ctx.extra['trace_engine_states'] = ctx.extra.get('trace_engine_states', 0) + total

def engine_family(ctx, prop, module, cfg, engine, obs_props, simulate=None):
    """TLC behaviours of the engine spec replayed into the real engine: for every environment script the real
    output must be one of the outputs the design allows (refinement at the observable level), and the L1
    formulas must hold on the recorded trace."""
    allowed = engine_outcomes(ctx, module, cfg, engine, simulate=simulate)
    scen = []
    for i, (key, (scr, outs)) in enumerate(sorted(allowed.items())):
        replies = []
        tt = sorted(int(t) for t in scr['script'].keys()) if isinstance(scr['script'], dict) else list(range(scr['min'], scr['min'] + len(scr['script'])))
        get = (lambda t: scr['script'][str(t)]) if isinstance(scr['script'], dict) else (lambda t: scr['script'][t - scr['min']])
        sendfail = []
        for t in tt:
            for r in get(t):
                if r['err'] == 'sendfail':
                    sendfail.append(t)
                    continue
                replies.append({'on_ttl': t, 'ttl': r['ttl'], 'dest': r['dest'], 'delay_us': r['delay'] * UNIT_US, 'ip': r['ip'], 'err': r['err']})
        s = {'id': '%s/%s/%s/%d' % (prop, engine, cfg.replace('.cfg', '').replace('Engine', '').replace('MC', ''), i), 'kind': 'engine', 'min': scr['min'], 'max': scr['max'],
             'timeout_ms': scr['timeout'] * UNIT_US // 1000, 'poll_ms': scr['poll'] * UNIT_US // 1000, 'delay_ms': scr['delay'] * UNIT_US // 1000,
             'cancel_us': scr['cancel'] * UNIT_US if scr['cancel'] >= 0 else 0,
             'engine': {'engine': engine, 'replies': replies, 'send_fail_at': sendfail},
             'label': '%s/script-%d' % (engine, i), '_key': key}
        if scr['cancel'] == 0:
            s['cancel_us'] = 0
            s['extra'] = {'cancel_at_start': True}
        s.setdefault('extra', {})['spec'] = {'script': [get(t) for t in tt], 'cancel': scr['cancel']}
        scen.append(s)
    ctx.extra['rule'] = ('every environment script of %s/%s (replies per probe: none / own TTL / duplicate / destination / destination replacing a '
                         'router reply / late / retryable junk / faults) is explored exhaustively by TLC with all design invariants and then executed on the '
                         'real common.Traceroute%s with a scripted driver under the virtual clock; the real output must be in the set of outputs the '
                         'design allows for that script; non-trivial = at least one reply was accepted; distinct by script' % (module, cfg, engine.capitalize()))
    if ctx.bin is None:
        vt.build_harness(ctx)
    traces = vt.run_harness(ctx, [{k: v for k, v in s.items() if k != '_key'} for s in scen], prop + '-' + engine + '-' + cfg.replace('.cfg', ''))
    evs = vt.read_traces(traces)
    by_id = {s['id']: s for s in scen}
    ctx.evaluations += len(scen)
    drift = ctx.extra.setdefault('drift_scenarios', [])
    for s in scen:
        es = evs.get(s['id'], [])
        ret = [e for e in es if e['event'] == 'Return']
        if not ret:
            if s['id'] in ctx.extra.get('hangs', []):
                continue
            raise Infra('engine scenario %s did not return' % s['id'])
        scr, outs = allowed[s['_key']]
        if 'err' not in ret[0]:      # synthetic Return of a scenario in which the process died (vt.crash_to_return)
            drift.append(s['id'])
            if prop not in vt.CRASH_PROPS:
                ctx.extra['inconclusive'] = 'the process crashed in scenario %s (%s): inconclusive for %s, see the checks of %s' % (s['id'], ret[0].get('panic'), prop, '/'.join(vt.CRASH_PROPS))
            continue
        real = _norm_real_out(ret[0])
        if real not in {_norm_spec_out(scr, o) for o in outs}:
            drift.append(s['id'])
            if len(ctx.notes) < 5:
                ctx.notes.append('refinement: %s real=%r allowed=%r' % (s['id'], real, list({_norm_spec_out(scr, o) for o in outs})[:3]))
        else:
            ctx.validated += 1
        if any(e['event'] == 'Got' and e['err'] == '' for e in es):
            ctx.nontrivial.add(s['_key'])
    if len(ctx.samples) < 3 and scen:
        s0 = scen[len(scen) // 2]
        ctx.samples.append({'scenario': {k: v for k, v in s0.items() if k != '_key'}, 'allowed_outputs': allowed[s0['_key']][1][:2],
                            'real_events': [{k: v for k, v in e.items() if k not in ('gsample',)} for e in evs.get(s0['id'], [])][:25]})
    viol = vt.observe(ctx, traces, obs_props)
    trace_engine(ctx, cfg, traces, drift, module='TraceEngine' if engine == 'parallel' else 'TraceEngineSerial')
    ctx.extra['spec_drift'] = len(drift)
    vt.confirm_and_report(ctx, {k: {kk: vv for kk, vv in v.items() if kk != '_key'} for k, v in by_id.items()}, viol, obs_props, history=vt.shard_order(traces))

# ---------------------------------------------------------------------------------------------
def check_C01(ctx):
    vt.tlc_design(ctx, 'MatcherMC', label='matchers: C01/C02/C04 design invariants over the perturbation lattice')
    scen = vt.tlc_generate(ctx, 'GenWire', 'C01', 0)
    scen += vt.tlc_generate(ctx, 'GenRun', 'C01', 0)       # request level: the SYN run of a prefer_sack fallback
    scen += [x for x in vt.tlc_generate(ctx, 'GenRun', 'Hist', 0) if x['id'].startswith('C01/')]     # the identical HTTP request served a moment ago
    wire_family(ctx, 'C01', scen,
                rule='one scenario per (variant, strict/relaxed, identifier base, TTL range, single-field perturbation or '
                     'unsent/early/looped genuine packet, injection instant) enumerated by TLC from GenWire!C01All; executed on the real '
                     'entry point; non-trivial = the packet under test was delivered to the capture handle; distinct by abstract label',
                nontrivial=delivered_something)
    vt.write_evidence(ctx, 'model_checking', ctx_rule(ctx), exhaustive=True)

def ctx_rule(ctx):
    return ctx.extra.get('rule', '')

WIRE_RULE = ('scenarios enumerated/sampled by TLC from GenWire!%s (environment spec: reply forms, encodings, perturbations, timing, bases), each executed on '
             'the real protocol entry point over the simulated wire under the virtual clock, each trace validated by the TLA+ observer (Props formulas) '
             'and compared with the design prediction (Conform); non-trivial = at least one packet was delivered to the capture handle; distinct by abstract label')

def check_C02(ctx):
    vt.tlc_design(ctx, 'MatcherMC', label='matchers: C01/C02/C04 design invariants over the perturbation lattice')
    scen = vt.tlc_generate(ctx, 'GenWire', 'C02', 250 if ctx.quick() else 4000)
    # replies with outer IP options also run behind the real capture filters (the filter computes the transport offset from the header length)
    for s in list(scen):
        if '/opt0/' not in s['label']:
            f = json.loads(json.dumps(s)); f['id'] += '/filtered'; f['label'] += '/filtered'; f['filter'] = True
            scen.append(f)
    # every destination-unreachable code, from the target and from a router on the way (the responder x code matrix of C04All)
    scen += [s for s in vt.tlc_generate(ctx, 'GenWire', 'C04', 0) if '/du_code/' in s['id'] and s['variant'].startswith('udp')]
    wire_family(ctx, 'C02', scen, WIRE_RULE % 'C02All (replies with outer IP options also behind the real capture filters) + the UDP destination-unreachable code matrix of C04All', nontrivial=delivered_something)
    # what only real sockets show: identifiers the kernel rewrites (echo id 0), answers entering on another interface
    rule = ctx_rule(ctx)
    lab_family(ctx, 'C02', 'C02')
    ctx.extra['rule'] = rule + '; plus KernelPath!C02Lab on a real kernel path'
    vt.write_evidence(ctx, 'model_checking', ctx_rule(ctx), exhaustive=False)

def check_C04(ctx):
    vt.tlc_design(ctx, 'MatcherMC', label='matchers: C01/C02/C04 design invariants over the perturbation lattice')
    scen = vt.tlc_generate(ctx, 'GenWire', 'C04', 0)
    scen += [s for s in vt.tlc_generate(ctx, 'GenWire', 'C01', 0) if 'from_foreign' in s['label'] or 'genuine' in s['label']]
    scen += vt.tlc_generate(ctx, 'GenRun', 'C04', 0)       # the mark on the library's Results, with and without enrichment
    wire_family(ctx, 'C04', scen, WIRE_RULE % 'C04All (responder x form matrix) + the foreign-responder cases of C01All', nontrivial=delivered_something)
    vt.write_evidence(ctx, 'model_checking', ctx_rule(ctx), exhaustive=True)

def engines(ctx, prop, cfgs_par, cfgs_ser, obs):
    for c in cfgs_par:
        engine_family(ctx, prop, 'EngineParallelMC', c, 'parallel', obs)
    for c in cfgs_ser:
        engine_family(ctx, prop, 'EngineSerialMC', c, 'serial', obs)

def check_C03(ctx):
    # unbounded: Shape(Clip(res)) for any first/last TTL and any result table (TLAPS); EngineParallelMC binds the proof's copies of
    # Clip/Shape to the engine spec (ClipCopyAgrees) and checks its hypothesis (ClipHyp) on every reachable state
    vt.tlaps_proof(ctx, 'ClipProof', ['ClipDefs'])
    par = ['EngineParallelMC.cfg', 'EngineParallelMC_faults.cfg', 'EngineParallelMC_faults3.cfg', 'EngineParallelMC_hi.cfg', 'EngineParallelMC_wide.cfg']
    ser = ['EngineSerialMC.cfg', 'EngineSerialMC_faults.cfg', 'EngineSerialMC_faults3.cfg', 'EngineSerialMC_hi.cfg', 'EngineSerialMC_wide.cfg']
    if not ctx.quick():
        par.append('EngineParallelMC_4.cfg'); ser.append('EngineSerialMC_4.cfg')
    engines(ctx, 'C03', par, ser, ['C03'])
    rule = ctx_rule(ctx)
    scen = vt.tlc_generate(ctx, 'GenWire', 'C06', 0) + vt.tlc_generate(ctx, 'GenWire', 'C04', 0 if not ctx.quick() else 150)
    # the shape on a busy host: steady streams of packets that are not replies (GenWire!C09Flood), the destination at TTL 4
    for f in [x for x in vt.tlc_generate(ctx, 'GenWire', 'C09', 0) if '/flood/' in x['id']]:
        f = dict(f); f.pop('twin', None); f['id'] = f['id'].replace('C09/', 'C03/busy/'); scen.append(f)
    wire_family(ctx, 'C03', scen, rule, nontrivial=delivered_something)
    ctx.extra['rule'] = rule + '; plus the wire-level C06All/C04All scenarios with the shape formula evaluated on the protocol entry points'
    vt.write_evidence(ctx, 'model_checking', ctx_rule(ctx), exhaustive=True)

def check_C05(ctx):
    engines(ctx, 'C05', ['EngineParallelMC.cfg'], ['EngineSerialMC.cfg'] + ([] if ctx.quick() else ['EngineSerialMC_4.cfg']), ['C05'])
    rule = ctx_rule(ctx)
    scen = vt.tlc_generate(ctx, 'GenWire', 'C05', 0)
    if ctx.quick():
        keep = ('/late/', '/eager/', '/sackwrap/', '/stall/', '/base/')
        late = [s for s in scen if any(k in s['id'] for k in keep)]
        rest = [s for s in scen if not any(k in s['id'] for k in keep)]
        scen = late + rest[ctx.seed % 5::5]
    scen += vt.tlc_generate(ctx, 'GenRun', 'C05', 0)       # end-to-end samples at request level
    wire_family(ctx, 'C05', scen, rule, nontrivial=delivered_something)
    ctx.extra['rule'] = rule + '; plus ' + (WIRE_RULE % 'C05All (per-hop delay assignments, duplicates with larger delay, production-scale timers)')
    vt.write_evidence(ctx, 'model_checking', ctx_rule(ctx), exhaustive=not ctx.quick())

def check_C06(ctx):
    engines(ctx, 'C06', ['EngineParallelMC.cfg', 'EngineParallelMC_cancel.cfg'] if not ctx.quick() else ['EngineParallelMC.cfg'],
            ['EngineSerialMC.cfg'], ['C06'])
    rule = ctx_rule(ctx)
    scen = vt.tlc_generate(ctx, 'GenWire', 'C06', 0)
    scen += vt.tlc_generate(ctx, 'GenRun', 'C06', 0)       # request level: the configured delay against every timeout
    # sending stops after the destination's answer whatever destination-unreachable code it uses (UDP)
    scen += [s for s in vt.tlc_generate(ctx, 'GenWire', 'C04', 0) if '/du_code/' in s['id'] and s['variant'].startswith('udp') and s['id'].endswith('/TARGET')]
    wire_family(ctx, 'C06', scen, rule, nontrivial=lambda s, es: any(e['event'] == 'Send' for e in es))
    ctx.extra['rule'] = rule + '; plus ' + (WIRE_RULE % 'C06All (255-TTL runs for every variant and identifier base; destination answers at every position relative to pacing)')
    vt.write_evidence(ctx, 'model_checking', ctx_rule(ctx), exhaustive=True)

def _form_ok(variant, form):
    return {'echo': variant.startswith('icmp'), 'du_port': variant.startswith('udp'), 'synack': variant.startswith('tcp'),
            'rst': variant.startswith('tcp'), 'sack': variant == 'sack'}.get(form, True)

def check_C08(ctx):
    if ctx.quick():
        engines(ctx, 'C08', ['EngineParallelMC_cancel_long.cfg'], ['EngineSerialMC_cancel_long.cfg'], ['C08'])
    else:
        engines(ctx, 'C08', ['EngineParallelMC_cancel.cfg', 'EngineParallelMC_cancel_long.cfg'], ['EngineSerialMC_cancel.cfg', 'EngineSerialMC_cancel_long.cfg'], ['C08'])
    rule = ctx_rule(ctx)
    scen = vt.tlc_generate(ctx, 'GenWire', 'C08', 0)
    # stalled HTTP providers / resolvers: the provider scripts of Enrich!PubAll, the slow-resolver documents of GenDoc!C18All
    scen += pub_scenarios(ctx)
    scen += vt.tlc_generate(ctx, 'GenDoc', 'C08', 0)         # stalled resolvers (real clock)
    # whatever arrives, the call returns: the single-field perturbation lattice of C01All for the serial engine (which runs without a
    # caller's context: nothing but its own bound ends it)
    c01 = [s for s in vt.tlc_generate(ctx, 'GenWire', 'C01', 0) if s['variant'] in ('tcp', 'tcp_paris')]
    scen += c01[ctx.seed % 2::2] if ctx.quick() else c01
    wire_family(ctx, 'C08', scen, rule, nontrivial=lambda s, es: True)
    # on the real kernel: a target that silently drops the SYN of the SACK attempt (KernelPath!C08Lab)
    lab_family(ctx, 'C08', 'C08')
    ctx.extra['rule'] = rule + '; plus ' + (WIRE_RULE % 'C08All (silence, floods, SACK handshake stalls, cancellation grid incl. ties)')
    vt.write_evidence(ctx, 'model_checking', ctx_rule(ctx), exhaustive=True)

def check_C09(ctx):
    vt.tlc_design(ctx, 'MatcherMC', label='matchers: no packet class is fatal; only a SACK-less ACK on the probed connection ends a run')
    scen = vt.tlc_generate(ctx, 'GenWire', 'C09', 0)
    # concretisation beyond the TLC-enumerated classes: seeded random byte strings and random byte flips of genuine replies
    import random
    rnd = random.Random(ctx.seed)
    nrand = 40 if ctx.quick() else 1500      # batches of 20 per variant-independent pool
    cleans0 = [s for s in scen if not s.get('twin')]
    for k in range(nrand):
        c = cleans0[k % len(cleans0)]
        inj = []
        for i in range(20):
            if rnd.random() < 0.5:
                n = rnd.choice([1, 2, 7, 19, 20, 21, 27, 28, 39, 40, 41, 48, 60, 100, 500, 1024]) if rnd.random() < 0.5 else rnd.randint(1, 1024)
                raw = bytearray(rnd.getrandbits(8) for _ in range(n))
                if rnd.random() < 0.7:
                    raw[0] = rnd.choice([0x45, 0x46, 0x4f, 0x60]) if rnd.random() < 0.8 else raw[0]
                inj.append({'at_us': 1000 + rnd.randint(0, 300000), 'for_ttl': 3, 'form': 'raw', 'raw': bytes(raw).hex(), 'tag': 'random/len%d' % n})
            else:
                form = rnd.choice(['te', 'te'] + [x for x in ('echo', 'du_port', 'synack', 'rst', 'sack') if _form_ok(c['variant'], x)])
                np_ = rnd.randint(1, 4)
                patch = [[rnd.randint(0, 70), rnd.getrandbits(8)] for _ in range(np_)]
                inj.append({'at_us': 1000 + rnd.randint(0, 300000), 'for_ttl': 3, 'form': form, 'from': '192.0.2.%d' % (100 + i) if not c['variant'].endswith('6') else '2001:db8:f::%x' % (100 + i),
                            'patch': patch, 'tag': 'flip/%s/%s' % (form, '-'.join('%d:%d' % tuple(x) for x in patch))})
        n = dict(c); n['id'] = '%s/random/%d' % (c['id'], k); n['twin'] = c['id']; n['label'] = c['variant'] + '/junk-batch'; n['inject'] = inj
        scen.append(n)
    # the same junk with trace logging on (log statements that format packet bytes run only then)
    tw = [x for x in list(scen) if x.get('twin') and '/random/' not in x['id']]
    special = [x for x in tw if any('odd_option' in (i.get('tag') or '') for i in x.get('inject', []))]      # option layouts that only log statements decode
    for s0 in special + [x for x in tw[:: (6 if ctx.quick() else 1)] if x not in special]:
        v = dict(s0); v['id'] = s0['id'] + '/verbose'; v['label'] = s0['label'] + '/trace-logging'; v['extra'] = dict(s0.get('extra') or {}, verbose=True)
        c = dict([x for x in scen if x['id'] == s0['twin']][0]); c['id'] = c['id'] + '/verbose/' + str(len(scen)); v['twin'] = c['id']
        scen += [c, v]
    lattice = [x for x in vt.tlc_generate(ctx, 'GenWire', 'C01', 0) if x.get('inject') and x['min'] == 1]
    if ctx.quick():
        lattice = [x for x in lattice if x['ipid_base'] == 41821][ctx.seed % 2::2]
    for x in lattice:
        c = dict(x); c['id'] = x['id'].replace('C01/', 'C09/lattice/') + '#clean'; c['inject'] = []; c['label'] = 'clean'
        n = dict(x); n['id'] = x['id'].replace('C01/', 'C09/lattice/'); n['twin'] = c['id']; n['label'] = x['variant'] + '/junk-batch'
        n['inject'] = [dict(i, tag='lattice/' + i['tag']) for i in x['inject']]
        scen += [c, n]
    # first pass: batches of junk; a violating batch is expanded into one scenario per junk packet (label = junk class)
    by = {s['id']: s for s in scen}
    if ctx.bin is None:
        vt.build_harness(ctx)
    traces = vt.run_harness(ctx, scen, 'C09a')
    viol = [sid for p, sid in vt.observe(ctx, traces, ['C09']) if p == 'C09']
    ctx.evaluations += len(scen)
    singles = []
    seen_lbl = set()
    for sid in viol:
        s = by.get(sid) or by.get(sid.rsplit('#', 1)[0])
        if s is None:
            raise Infra('unknown scenario ' + sid)
        clean = by[s['twin']] if s['twin'] in by else by[s['twin'].rsplit('#', 1)[0]]
        if not s.get('inject'):        # a stream of skipped packets (flood): no single packet to isolate, the scenario itself is re-run
            lbl = s['label']
            if lbl not in seen_lbl:
                seen_lbl.add(lbl)
                one = dict(s); one['id'] = s['id'] + '/again'; one['twin'] = clean['id']
                singles.append(one)
            continue
        for k, inj in enumerate(s['inject']):
            lbl = '%s/%s' % (s['variant'], inj['tag'])
            if lbl in seen_lbl:
                continue
            seen_lbl.add(lbl)
            one = dict(s); one['inject'] = [inj]; one['id'] = '%s/one/%d' % (s['id'], k); one['label'] = lbl; one['twin'] = clean['id']
            singles.append(one)
    cleans = {s['twin'] for s in singles}
    junk_total = sum(len(s.get('inject', [])) for s in scen)
    ctx.extra['junk_packets'] = junk_total
    ctx.evaluations = junk_total      # one evaluation = one junk packet injected into a real run
    for s in scen:
        for inj in s.get('inject', []):
            ctx.nontrivial.add('%s/%s' % (s['variant'], inj['tag']))
    ctx.validated += len(scen)
    if singles:
        wire_family(ctx, 'C09', [by[c] for c in cleans] + singles, '', nontrivial=lambda s, es: False)
    ctx.extra['rule'] = ('junk classes enumerated by TLC from GenWire!JunkSet per variant (every truncation length 1..95 of every genuine reply form, version / IHL / '
                         'length / fragment / protocol / next-header lies, corrupt quoted headers, TCP data-offset and option-length lies, trailing garbage), '
                         'injected in batches of 20 at 3 instants of a run that is paired with its noise-free twin; a violating batch is re-run one packet at a time; '
                         'non-trivial/distinct = junk class label (variant/form/damage)')
    ctx.samples = ctx.samples[:2] + [{'scenario': scen[1] if len(scen) > 1 else scen[0]}]
    # below the simulated wire: what the REAL capture handle hands the parser (padded minimum-size frames, total length 0, large unrelated ICMP)
    rule = ctx.extra['rule']
    lab_family(ctx, 'C09', 'C09')
    ctx.extra['rule'] = rule + '; plus KernelPath!C09Lab: padded 60-byte frames with IPv4 total length 0 and large unrelated ICMP arriving on the real capture path while a run is in progress'
    vt.write_evidence(ctx, 'exploration', ctx_rule(ctx), exhaustive=False)

def check_C10(ctx):
    engines(ctx, 'C10', ['EngineParallelMC_faults.cfg', 'EngineParallelMC_faults3.cfg'], ['EngineSerialMC_faults.cfg', 'EngineSerialMC_faults3.cfg'], ['C10'])
    rule = ctx_rule(ctx)
    scen = vt.tlc_generate(ctx, 'GenWire', 'C10', 0)
    # request level: failing subsets, and cancellation while the end-to-end probes are being paced (GenRun!C15All): no goroutine of the
    # request outlives the call, every handle closed exactly once
    req = vt.tlc_generate(ctx, 'GenRun', 'C15', 0)
    scen += [x for x in req if '/cancel/' in x['id'] or '/many/' in x['id']] + [x for x in req if '/cancel/' not in x['id'] and '/many/' not in x['id'] and '/http/' not in x['id'] and x.get('faults')][ctx.seed % 7::7 if ctx.quick() else 1]
    # ... and the TCP method policy's fault cases (a failing capture handle during the SACK attempt is not "SACK unavailable"), and the
    # rejected TCP-over-IPv6 requests (handles opened before the rejection are closed)
    scen += [x for x in vt.tlc_generate(ctx, 'GenRun', 'C20', 0) if x.get('faults')]
    scen += [x for x in vt.tlc_generate(ctx, 'GenRun', 'C19', 0) if x['run']['protocol'] == 'tcp' and '2001:' in x['run']['hostname'] and x['run'].get('via', 'lib') == 'lib'][:12]
    # ... and the enrichment services misbehaving (slow / failing / stalled resolver and public-IP provider): nothing outlives the call
    enr = vt.tlc_generate(ctx, 'GenRun', 'C10', 0)
    scen += ([x for x in enr if '/query_fails' in x['id']] + [x for x in enr if '/query_fails' not in x['id']][ctx.seed % 2::2]) if ctx.quick() else enr
    # cancellation of the caller's context at every instant of the grid (the ICMP and SACK entry points take it): handles closed once, by their owner
    scen += [x for x in vt.tlc_generate(ctx, 'GenWire', 'C08', 0) if '/cancel/' in x['id']]
    wire_family(ctx, 'C10', scen, rule, nontrivial=lambda s, es: any(e['event'] == 'Fault' for e in es) or '/enrich/' in s['id'])
    ctx.extra['rule'] = rule + '; plus ' + (WIRE_RULE % 'C10All (the k-th call of every Source/Sink operation and constructor x error class, on every protocol entry point)') + '; non-trivial = the fault fired'
    vt.write_evidence(ctx, 'model_checking', ctx_rule(ctx), exhaustive=True)

RUN_RULE = ('request-level scenarios enumerated by TLC from GenRun!%s, executed through traceroute.RunTraceroute (and the HTTP handler) over one shared '
            'simulated wire under the virtual clock; each trace validated by the TLA+ observer; distinct by abstract label')

def check_C15(ctx):
    vt.tlc_design(ctx, 'Multi', cfg='Multi_q.cfg' if ctx.quick() else 'Multi.cfg', timeout=900,
                  label='runTracerouteMulti: every failing subset x every completion order; all-or-error, exact counts, termination')
    scen = vt.tlc_generate(ctx, 'GenRun', 'C15', 0)
    if ctx.quick():
        kept = ('/cancel/', '/many/', '/http/', '/deadline/')
        keep = [s for s in scen if any(k in s['id'] for k in kept)]
        rest = [s for s in scen if not any(k in s['id'] for k in kept)]
        scen = keep + rest[ctx.seed % 5::5]
    # the real public-IP fetcher without connectivity, two lookups in a row on one fetcher (real clock, ~20 s): each one comes back
    scen.append({'id': 'C15/pubfetch/2', 'label': 'publicip/real_fetcher/two_failing_lookups', 'kind': 'pubfetch', 'extra': {'calls': 2}})
    wire_family(ctx, 'C15', scen, RUN_RULE % 'C15All (protocol x query counts x failing subsets x completion orders x public-IP on/off/failing)' +
                '; non-trivial = at least one injected failure fired or more than one query ran',
                nontrivial=lambda s, es: any(e['event'] == 'Fault' for e in es) or 'run' not in s or s['run']['queries'] + s['run']['e2e'] > 1)
    # the real server binary on a real kernel path: exact counts also for a request that takes longer than a minute (about 65 s of real time)
    rule = ctx_rule(ctx)
    lab_family(ctx, 'C15', 'C15')
    ctx.extra['rule'] = rule + '; plus KernelPath!C15Lab: the HTTP server binary in a network namespace, one request of 2 runs + 63 paced end-to-end probes'
    vt.write_evidence(ctx, 'model_checking', ctx_rule(ctx), exhaustive=not ctx.quick())

def check_C19(ctx):
    vt.tlc_design(ctx, 'Params', label='parameter lattice: the code decision path equals the meaning the property assigns (reject / execute exactly)')
    scen = vt.tlc_generate(ctx, 'GenRun', 'C19', 0)
    scen += vt.tlc_generate(ctx, 'GenRun', 'S01', 0)     # extra: HTTP status mapping (drift only)
    scen += [x for x in vt.tlc_generate(ctx, 'GenRun', 'Hist', 0) if x['id'].startswith('C19/')]     # the same name traced with the other family before
    wire_family(ctx, 'C19', scen, RUN_RULE % 'C19All (TTL bounds far beyond 0..255, ports around 0/1/65535/65536, protocol and method strings, target literal forms; library and HTTP API)' +
                '; non-trivial = the parameter set is not the default one (all are)', nontrivial=lambda s, es: True)
    vt.write_evidence(ctx, 'model_checking', ctx_rule(ctx), exhaustive=True)

def apalache_alloc(ctx):
    """Unbounded-value safety of the allocator by an inductive invariant (Apalache): Init => IndInv, IndInv /\\ Next => IndInv',
    IndInv => Disjoint16 (the last one only in the thorough tier: 25 s). A solver timeout is inconclusive (exit 2), never a verdict."""
    import shutil, tempfile
    obligations = [('Init => IndInv', ['--init=Init', '--inv=IndInv', '--length=0']),
                   ("IndInv /\\ Next => IndInv'", ['--init=IndInit', '--inv=IndInv', '--length=1'])]
    if not ctx.quick():
        obligations.append(('IndInv => Disjoint16', ['--init=IndInit', '--inv=Disjoint16', '--length=0']))
    done = []
    for name, args in obligations:
        d = tempfile.mkdtemp(prefix='vt-apa-')
        try:
            shutil.copy(os.path.join(vt.VERIF, 'spec', 'AllocApa.tla'), d)
            p = vt.sh(['timeout', '600', 'apalache-mc', 'check'] + args + ['--out-dir=' + os.path.join(d, 'out'), 'AllocApa.tla'], cwd=d)
            if 'The outcome is: NoError' not in p.stdout:
                raise Infra('Apalache obligation %r not discharged: %s' % (name, p.stdout[-600:]))
            done.append(name)
        finally:
            shutil.rmtree(d, ignore_errors=True)
    ctx.extra['apalache_obligations'] = {'module': 'AllocApa', 'obligations': len(obligations), 'discharged': len(done), 'names': done,
                                         'note': 'inductive invariant over unbounded integers, up to 5 live runs (Gen)'}

def check_C11(ctx):
    vt.tlc_design(ctx, 'Alloc', cfg='Alloc_q.cfg' if ctx.quick() else 'Alloc.cfg', timeout=900,
                  label='identifier allocators: every interleaving of concurrent fetch-and-add callers from bases at wrap-around')
    vt.tlc_design(ctx, 'MatcherMC', label='matchers: C11_Design - a concurrent run never matches a genuine reply to another run')
    apalache_alloc(ctx)
    scen = vt.tlc_generate(ctx, 'GenRun', 'C11', 0)
    if ctx.quick():
        mixes = [s for s in scen if '/mix/' in s['id']]
        keep = set(x['id'] for x in mixes[ctx.seed % 3::3])
        scen = [s for s in scen if '/mix/' not in s['id'] or s['id'] in keep]
    # the same trace from several goroutines of a library user at the protocol entry points (Paris / relaxed included, sequence numbers not pinned)
    same = vt.tlc_generate(ctx, 'GenWire', 'C11', 0)
    scen += same[ctx.seed % 2::2] if ctx.quick() else same
    wire_family(ctx, 'C11', scen, RUN_RULE % 'C11All (a request with 3 runs + e2e probes; mixes of concurrent requests of different protocols to one target; '
                'allocator bases at wrap-around; reply interleavings; concurrent allocator callers)' +
                '; the oracle is: every reported run equals the design prediction for ONE wire run (its result alone); non-trivial = more than one flow on the wire',
                nontrivial=lambda s, es: len({e.get('flow') for e in es if e['event'] == 'Send'}) > 1 or s.get('kind') == 'alloc')
    vt.write_evidence(ctx, 'model_checking', ctx_rule(ctx), exhaustive=not ctx.quick())

def check_C20(ctx):
    vt.tlc_design(ctx, 'TcpPolicy', label='method x capability x injected failure: code path = policy')
    scen = vt.tlc_generate(ctx, 'GenRun', 'C20', 0)
    scen += [x for x in vt.tlc_generate(ctx, 'GenRun', 'Hist', 0) if x['id'].startswith('C20/')]     # after a closed port of the same host
    wire_family(ctx, 'C20', scen, RUN_RULE % 'C20All (method x target capability x injected non-capability failure, with and without e2e probes)' +
                '; non-trivial = every case (108 distinct)', nontrivial=lambda s, es: True)
    vt.write_evidence(ctx, 'model_checking', ctx_rule(ctx), exhaustive=True)

def check_C12(ctx):
    import re, subprocess
    # 1. the configurations (TLC) -> the actual programs of the working tree (harness, hook H2)
    cfgs = os.path.join(ctx.scratch, 'bpfcfg.json')
    r = vt.run_tlc('BpfCfg', env={'VT_OUT': cfgs}, workers=1, timeout=120)
    if not r.ok():
        raise Infra('BpfCfg failed: ' + vt.filtered(r.out, 20))
    vt.build_harness(ctx)
    progs = os.path.join(ctx.scratch, 'bpfprogs.json')
    p = vt.sh([ctx.bin, '-test.run', 'TestBpfDump', '-vt.in', cfgs, '-vt.bpfdump', progs], env=vt.goenv())
    if p.returncode != 0 or not os.path.exists(progs):
        raise Infra('program extraction failed: ' + p.stdout[-2000:])
    plist = json.load(open(progs))
    # 2. exhaustive interpretation of the extracted instructions over the frame class space
    r = vt.run_tlc('Bpf', env={'VT_BPF': progs, 'VT_BPFONLY': '', 'VT_SAMPLE': '1'}, timeout=1500, extra=['-seed', str(ctx.seed)])
    ctx.design.append({'module': 'Bpf', 'cfg': 'Bpf.cfg', 'generated': r.generated, 'distinct': r.distinct, 'wall_s': round(r.wall, 1), 'violated': r.violated,
                       'programs': len(plist)})
    ctx.states += r.distinct; ctx.transitions += r.generated
    if r.timeout:
        raise Infra('Bpf.tla timed out')
    samples = []
    for line in r.out.splitlines():
        m = re.match(r'^<<"FRAME", "(.*)">>$', line)
        if m:
            samples.append(json.loads(m.group(1).encode().decode('unicode_escape')))
    cex = None
    if 'C12_Exact' in r.violated or 'ProgramsExtracted' in r.violated:
        m = re.search(r'/\\ fr = <<([0-9, ]*)>>', r.out[r.out.find('Invariant'):])
        m2 = re.search(r'/\\ pi = (\d+)', r.out[r.out.find('Invariant'):])
        # the violating state is the LAST state printed
        frs = re.findall(r'/\\ fr = <<([0-9,\s]*)>>', r.out)
        pis = re.findall(r'/\\ pi = (\d+)', r.out)
        if 'ProgramsExtracted' in r.violated or not frs or not pis:
            bad = [x for x in plist if x['err'] or not x['prog']]
            cex = {'prog': 0, 'frame': [], 'why': 'no program extracted for ' + json.dumps([b['name'] for b in bad])}
        else:
            frame = [int(x) for x in frs[-1].split(',') if x.strip()]
            vds = re.findall(r'/\\ vd = (TRUE|FALSE)', r.out); rfs = re.findall(r'/\\ rf = (TRUE|FALSE)', r.out)
            cex = {'prog': int(pis[-1]), 'frame': frame, 'tla_verdict': vds[-1] == 'TRUE', 'reference': rfs[-1] == 'TRUE'}
    elif not r.ok():
        raise Infra('Bpf.tla failed: ' + vt.filtered(r.out, 40))
    # 3. cross-check the TLA+ interpreter against the real x/net/bpf VM on the real programs
    def vm_check(cases, name):
        cf = os.path.join(ctx.scratch, name + '.ndjson'); of = os.path.join(ctx.scratch, name + '.out.json')
        with open(cf, 'w') as f:
            for c in cases:
                f.write(json.dumps(c) + '\n')
        q = vt.sh([ctx.bin, '-test.run', 'TestBpfCheck', '-vt.in', progs, '-vt.bpfcheck', cf, '-vt.out', of], env=vt.goenv())
        if q.returncode != 0 or not os.path.exists(of):
            raise Infra('VM cross-check failed: ' + q.stdout[-2000:])
        return json.load(open(of))
    res = vm_check(samples, 'samples') if samples else {'checked': 0, 'disagree': [], 'accepted': 0}
    ctx.extra['vm_frames_checked'] = res['checked']; ctx.extra['vm_frames_accepted'] = res['accepted']
    if res['disagree']:
        raise Infra('Bpf.tla interpreter disagrees with the real VM on %d frame(s), e.g. %s' % (len(res['disagree']), json.dumps(res['disagree'][0])[:300]))
    ctx.evaluations += r.distinct
    ctx.nontrivial.update(('prog', x['name'], tuple(x['src']), tuple(x['dst']), x['sport'], x['dport']) for x in plist)
    ctx.samples.append({'program': plist[0], 'frames_with_verdicts': samples[:3]})
    if cex is not None:
        if cex['frame']:
            # TLA+ says Verdict # Ref on this frame: confirm on the real VM that the program's verdict is what the interpreter computed
            tl = vt.run_tlc('Bpf', env={'VT_BPF': progs, 'VT_BPFONLY': '', 'VT_SAMPLE': '0'}, timeout=10) if False else None
            refv = cex.get('ref')
            one = vm_check([{'prog': cex['prog'], 'frame': cex['frame'], 'verdict': True}], 'cex')
            real_accepts = one['accepted'] == 1
            cex['real_vm_accepts'] = real_accepts
            if real_accepts != cex['tla_verdict']:
                raise Infra('Bpf.tla counterexample does not reproduce on the real VM (interpreter bug): ' + json.dumps(cex)[:400])
            cex['config'] = {k: plist[cex['prog'] - 1][k] for k in ('name', 'src', 'dst', 'sport', 'dport')}
        d = vt.save_replay(ctx, 'C12', [{'id': 'C12/cex', 'kind': 'bpf', 'cex': cex}], [], 'counterexample frame: the extracted program and the reference predicate disagree')
        ctx.violations.append(('C12', 'filter/%s' % (cex.get('config', {}).get('name', 'extract')), 'C12/cex', d))
    # 4. end to end: twin runs with the real programs applied by the simulated capture handle
    if cex is None:
        scen = vt.tlc_generate(ctx, 'GenWire', 'C02', 40 if ctx.quick() else 600)
        pairs = []
        for s0 in scen:
            a = dict(s0); a['id'] = s0['id'] + '#nofilter'
            b = dict(s0); b['id'] = s0['id'] + '#filter'; b['filter'] = True; b['twin'] = a['id']; b['label'] = 'e2e-filter/' + s0['label']
            pairs += [a, b]
        # IPv6 replies behind a hop-by-hop options header: does the capture filter accept what the matcher turns into a hop?
        for s0 in [x for x in scen if x['variant'] == 'icmp6'][:1 if ctx.quick() else 4] + [x for x in scen if x['variant'] == 'udp6'][:1 if ctx.quick() else 4]:
            h = json.loads(json.dumps(s0)); h['id'] = s0['id'] + '/hbh'; h['label'] = s0['label'] + '/hop-by-hop'
            for reps in h['path'].values():
                for r in reps:
                    r['hbh'] = True
            a = dict(h); a['id'] = h['id'] + '#nofilter'
            b = dict(h); b['id'] = h['id'] + '#filter'; b['filter'] = True; b['twin'] = a['id']; b['label'] = 'e2e-filter/' + h['label']
            pairs += [a, b]
            # ... and behind a destination-options / routing header (today neither the matcher nor the filter looks behind those)
            for ext in ('dst', 'rt'):
                x = json.loads(json.dumps(s0)); x['id'] = s0['id'] + '/ext-' + ext; x['label'] = s0['label'] + '/ipv6-' + ext + '-header'
                for reps in x['path'].values():
                    for r in reps:
                        r['ext6'] = ext
                a = dict(x); a['id'] = x['id'] + '#nofilter'
                b = dict(x); b['id'] = x['id'] + '#filter'; b['filter'] = True; b['twin'] = a['id']; b['label'] = 'e2e-filter/' + x['label']
                pairs += [a, b]
        rule = ('(1) the classic-BPF instructions of every filter configuration (static programs; TCP 4-tuple program for address/port byte patterns at '
                'sign/endianness boundaries) are extracted from the working tree and interpreted by Bpf.tla over the frame class space (ethertype, protocol, IHL 0..15, '
                'fragment words, each address/port byte equal/different, all 256 TCP flag bytes, frame lengths around every load offset, IPv6 next-header chains) '
                'against declarative reference predicates; (2) a seeded 1/40 sample of the frames is re-run on the real x/net/bpf VM; (3) wire scenarios run twice, '
                'with and without the real programs applied; distinct = filter configuration')
        wire_family(ctx, 'C12', pairs, rule, nontrivial=lambda s, es: False)
        # 5. the real capture path: AF_PACKET socket, attached program, drain - on a kernel path, one configuration per filter type and family
        lab_family(ctx, 'C12', 'C12')
        ctx.extra['rule'] = rule + '; (4) KernelPath!C12Lab: the real AF_PACKET capture path with the attached programs on a kernel path (IPv4/IPv6 ICMP and UDP, TCP SYN, SACK)'
    vt.write_evidence(ctx, 'model_checking', ctx.extra.get('rule', 'see DESIGN.md C12'), exhaustive=True)

DOC_RULE = ('documents enumerated by TLC from GenDoc!%s, built as real result.Results, run through Enrich / Normalize / RemovePrivateHops and json.Marshal; '
            'the marshalled JSON (numbers in 1/1000 units) is the trace TLC validates against DocProps (relations on the published field names) and against the '
            'document algebra ResultAlg!Process; distinct by label')

def check_C16(ctx):
    vt.tlc_design(ctx, 'Result', label='document algebra: C16/C17 relations for all documents in small scope + permutation invariance')
    scen = vt.tlc_generate(ctx, 'GenDoc', 'C16', 0, extra_env={})
    # the relations must also hold after redaction (Normalize -> RemovePrivateHops): the boundary-address documents of C17
    scen += vt.tlc_generate(ctx, 'GenDoc', 'C17', 0)
    scen += vt.tlc_generate(ctx, 'GenDoc', 'C16stress', 0)       # identifiers of documents finished concurrently
    scen += [x for x in vt.tlc_generate(ctx, 'GenRun', 'Hist', 0) if x['id'].startswith('C16/')]     # the server's answer after a client that went away
    wire_family(ctx, 'C16', scen, DOC_RULE % 'C16Stress (documents finished by 2 / 8 goroutines at once: identifiers pairwise distinct), C16All (0..2 runs, hop lists over empty/v4/v6/mapped addresses, RTT sample lists of length 0..4 over {0,1,2,7} incl. every permutation)',
                nontrivial=lambda s, es: True)
    vt.write_evidence(ctx, 'model_checking', ctx_rule(ctx), exhaustive=True)

def check_C17(ctx):
    vt.tlc_design(ctx, 'Result', label='document algebra: C17 relations (redaction) for all documents in small scope')
    scen = vt.tlc_generate(ctx, 'GenDoc', 'C17', 0)
    # through RunTraceroute and the HTTP handler over the wire: routers with private / public boundary addresses
    scen += vt.tlc_generate(ctx, 'GenRun', 'C17', 0)
    scen += [x for x in vt.tlc_generate(ctx, 'GenRun', 'Hist', 0) if x['id'].startswith('C17/')]     # an identical unredacted request served at the same time
    wire_family(ctx, 'C17', scen, DOC_RULE % 'C17All (every private block boundary and its public neighbours, mapped forms, empty hops, with/without enrichment, skip on/off)' +
                '; plus GenRun!C17All through RunTraceroute and the HTTP handler', nontrivial=lambda s, es: True)
    # on the real kernel, through the library and the command line: IPv4, IPv6 (unique local addresses), --ipv6 next to an IPv4 literal
    rule = ctx_rule(ctx)
    lab_family(ctx, 'C17', 'C17')
    ctx.extra['rule'] = rule + '; plus KernelPath!C17Lab on a real kernel path (library and CLI)'
    vt.write_evidence(ctx, 'model_checking', ctx_rule(ctx), exhaustive=True)

def cache_scenarios(ctx, cfg):
    import re
    r = vt.run_tlc('Enrich', cfg=cfg, env={'VT_GEN': 'cache', 'VT_OUT': os.path.join(ctx.scratch, 'unused')}, timeout=900)
    ctx.design.append({'module': 'Enrich', 'cfg': cfg, 'generated': r.generated, 'distinct': r.distinct, 'wall_s': round(r.wall, 1), 'violated': r.violated})
    ctx.states += r.distinct; ctx.transitions += r.generated
    if not r.ok():
        raise Infra('Enrich cache design check failed: ' + vt.filtered(r.out, 30))
    out = []
    for line in r.out.splitlines():
        m = re.match(r'^<<"OPS", "(.*)">>$', line)
        if m:
            ops = json.loads(m.group(1).encode().decode('unicode_escape'))
            k = len(out)
            out.append({'id': 'C18/cache/raw/%d' % k, 'label': 'cache/raw/' + '-'.join((o['op'][0] + o['key'] + o['cb'][:1]) if o['op'] == 'get' else 'adv%d' % (o['ms'] % 10) for o in ops),
                        'kind': 'cache', 'extra': {'ttl_ms': 3600000, 'ops': ops}})
            if k % 4 == 0:   # the same sequence through reversedns.GetReverseDns (1 h TTL)
                dops = [dict(o, via='dns', key={'a': '192.0.2.1', 'b': '2001:db8::7'}.get(o['key'], o['key'])) for o in ops]
                out.append({'id': 'C18/cache/dns/%d' % k, 'label': 'cache/dns/' + out[-1]['label'][10:], 'kind': 'cache', 'extra': {'ttl_ms': 3600000, 'ops': dops}})
    return out

def pub_scenarios(ctx):
    out = os.path.join(ctx.scratch, 'pub.ndjson')
    r = vt.run_tlc('Enrich', env={'VT_GEN': 'pub', 'VT_OUT': out}, workers=1, timeout=300)
    if not r.ok() or not os.path.exists(out):
        raise Infra('Enrich provider generator failed: ' + vt.filtered(r.out, 30))
    return [json.loads(l) for l in open(out) if l.strip()]

def check_C18(ctx):
    scen = vt.tlc_generate(ctx, 'GenDoc', 'C18', 400 if ctx.quick() else 0)
    scen += vt.tlc_generate(ctx, 'GenDoc', 'C18dup', 0)      # concurrent duplicate lookups, then a re-lookup that must hit the cache
    scen += vt.tlc_generate(ctx, 'GenDoc', 'C18dst', 0)      # runs with different destination addresses
    # enrichment followed by redaction: names stay with the addresses that are still reported (the boundary-address documents of C17All)
    scen += [x for x in vt.tlc_generate(ctx, 'GenDoc', 'C17', 0) if x['extra']['doc']['enrich']][:: (2 if ctx.quick() else 1)]
    scen += cache_scenarios(ctx, 'Enrich.cfg' if ctx.quick() else 'Enrich_6.cfg')[: (3000 if ctx.quick() else 10**9)]
    scen += pub_scenarios(ctx)
    # discovery as part of a request (library and HTTP): it gets the caller's context, a slow provider still answers
    scen += [x for x in vt.tlc_generate(ctx, 'GenRun', 'C10', 0) if x['run']['public_ip'] and x['run']['dns']['*'] in ('+300:n-slow', '!boom')]
    wire_family(ctx, 'C18', scen,
                '(a) ' + (DOC_RULE % 'C18All (address multisets with duplicates / empty / mapped forms x per-address resolver behaviour names|two|empty|error|slow) and C18Dup (concurrent duplicate lookups with different outcomes, then a re-lookup)') +
                '; (b) every operation sequence of the cache state machine Enrich.tla (get k ok|err, advance ttl-1|2|ttl+1) explored by TLC, replayed on cache.GetWithExpiration '
                'and reversedns.GetReverseDns under the virtual clock; (c) every provider script of Enrich!PubAll (10 behaviours ^ 3 providers) on publicip.GetPublicIP with a scripted transport',
                nontrivial=lambda s, es: True)
    vt.write_evidence(ctx, 'model_checking', ctx_rule(ctx), exhaustive=not ctx.quick())

def check_C14(ctx):
    import re
    for cfg, lbl in (('Locks.cfg', 'sack driver'), ('Locks_icmp.cfg', 'icmp/udp drivers')):
        vt.tlc_design(ctx, 'Locks', cfg=cfg, label='synchronisation skeleton under all interleavings with vector clocks (%s)' % lbl)
    vt.build_harness(ctx, race=True)
    scen = vt.tlc_generate(ctx, 'GenWire', 'C14', 0)
    # concurrent runs / aggregation goroutines / allocators / reverse-DNS fan-out on the ordinary wire
    allreq = [s for s in vt.tlc_generate(ctx, 'GenRun', 'C15', 0) if 'faults' in s and s['run']['queries'] >= 2 and s['run']['e2e'] >= 1]
    reqs = [s for s in allreq if not s['faults'] and '/long/' not in s['id']]
    # TTL ranges beyond the default towards a silent target, three runs at once (per-run buffers)
    scen += [s for s in vt.tlc_generate(ctx, 'GenRun', 'C15', 0) if '/long/' in s['id']]
    # several queries failing at once (error accumulation under contention)
    failing = []
    for r in allreq[:: max(1, len(allreq) // 8)][:8]:
        r = json.loads(json.dumps(r)); r['id'] += '/allfail'; r['label'] = 'request-failing/' + r['label']
        r['faults'] = [{'op': 'write', 'k': 1, 'class': 'fatal', 'run': k} for k in range(1, 8)]
        failing.append(r)
    for i, r in enumerate(reqs[ctx.seed % 3::3][: (12 if ctx.quick() else 60)]):
        r = json.loads(json.dumps(r)); r['run']['reverse_dns'] = True; r['run']['dns'] = {'*': 'name'}; r['label'] = 'request/' + r['label']
        if i % 2 == 0:
            r['filter'] = True      # the capture handles build and apply the real filter programs (concurrent runs generate theirs at once)
            r['id'] += '/filter'; r['label'] += '/filter'
        scen.append(r)
    scen += failing
    mixes = [s for s in vt.tlc_generate(ctx, 'GenRun', 'C11', 0) if (s.get('kind') == 'alloc' and 'stress' not in s['id']) or '/mix/' in s['id']][: (16 if ctx.quick() else 80)]
    for i, m in enumerate(mixes):
        if m.get('kind') != 'alloc' and i % 2 == 0:
            m['filter'] = True; m['id'] += '/filter'; m['label'] += '/filter'
    scen += mixes
    scen += vt.tlc_generate(ctx, 'GenDoc', 'C18', 12 if ctx.quick() else 100)
    # concurrent runs generating their capture filter programs at the same time (each for its own tuple)
    scen += [{'id': 'C14/bpfgen/%d' % g, 'label': 'filters/concurrent-generation/%d' % g, 'kind': 'bpfgen', 'extra': {'g': g, 'n': 200}} for g in (2, 8)]
    by = {s['id']: s for s in scen}
    races = {}
    rounds = [('2', 1), ('8', 2)] if ctx.quick() else [('1', 1), ('2', 2), ('4', 3), ('8', 4), ('16', 5)]
    for procs, k in rounds:
        traces = vt.run_harness(ctx, scen, 'C14-p' + procs, binary=ctx.racebin, env={'GORACE': 'halt_on_error=1', 'GOMAXPROCS': procs})
        ctx.evaluations += len(scen)
        for sid, es in vt.read_traces(traces).items():
            for e in es:
                if e['event'] != 'Crash':
                    continue
                if not e.get('race'):
                    raise Infra('harness process died in %s without a race report: %s' % (sid, e.get('msg') or e.get('stack', '')[-600:]))
                st = e['stack']
                blocks = re.split(r'\n\n', st[st.find('WARNING: DATA RACE'):])
                tops = []
                for b in blocks[:2]:
                    m = re.search(r'\n\s+(github.com/DataDog/datadog-traceroute/\S+?)\(\)\n\s+(/repo/[^\s]+)', '\n' + b)
                    tops.append((m.group(1).replace('github.com/DataDog/datadog-traceroute/', ''), m.group(2).replace('/repo/', '')) if m else None)
                if any(t is None for t in tops) or len(tops) < 2:
                    raise Infra('race report without repository frames on both sides (harness race?) in %s:\n%s' % (sid, st[:1500]))
                sig = ' <-> '.join(sorted(t[0] for t in tops))
                races.setdefault(sig, (sid, st, tops))
    ctx.validated += len(scen)
    ctx.nontrivial.update(s.get('label') or s['id'] for s in scen)
    ctx.samples.append({'scenario': scen[0]})
    known = [k for k in vt.load_known() if k.get('status') == 'known' and k['property'] == 'C14']
    import fnmatch
    for sig, (sid, st, tops) in races.items():
        kf = [k for k in known if fnmatch.fnmatchcase(sig, k['signature'])]
        if kf:
            ctx.known.append(('C14', sig, kf[0].get('what', '')))
            continue
        # replay: the same scenario alone, up to 3 attempts (the detector needs the accesses to be adjacent in its history)
        again = False
        for attempt in range(3):
            tr = vt.run_harness(ctx, [by[sid]], 'C14-confirm', binary=ctx.racebin, shards=1, env={'GORACE': 'halt_on_error=1'})
            if any(e['event'] == 'Crash' and e.get('race') for es in vt.read_traces(tr).values() for e in es):
                again = True
                break
        if not again:
            ctx.notes.append('race %s seen once in %s did not reproduce in 3 re-executions' % (sig, sid))
        d = vt.save_replay(ctx, 'C14', [by[sid]], [{'event': 'RaceReport', 'signature': sig, 'report': st[:6000]}], 'data race: ' + sig)
        ctx.violations.append(('C14', sig, sid, d))
    ctx.extra['rule'] = ('schedule classes enumerated by TLC (GenWire!C14All: for every TTL of every parallel-capable variant the reply is pre-queued before / at the instant of / '
                         'after the recording of its probe, with duplicates) executed on the real engines and drivers built with -race over the UNSYNCHRONISED wire; plus concurrent '
                         'requests (3 runs + e2e + reverse DNS + public IP), protocol mixes, concurrent allocator callers and the reverse-DNS fan-out; every class repeated with '
                         'several GOMAXPROCS values; verdict = a Go race detector report whose two stacks are in the repository; distinct by label')
    ctx.extra['race_signatures'] = sorted(races.keys())
    ctx.assumptions.append('the Go race detector is the access-level trace checker (trusted, no false positives); TLA+ supplies the schedule classes and the design-level vector-clock model')
    vt.write_evidence(ctx, 'exploration', ctx.extra['rule'], exhaustive=False, trusted=['Go race detector', 'TLC'])

# frames of exactly 60 bytes (the Ethernet minimum, padded) whose IPv4 total-length field is 0 (the segmentation-offload convention
# decoders accept), ICMP protocol so that they pass the capture filters: sent by router 1 straight to the tracer's interface
TSO0 = '''
import socket, struct, sys, time
dev, dst_mac, src_mac, src_ip, dst_ip = sys.argv[1:6]
s = socket.socket(socket.AF_PACKET, socket.SOCK_RAW)
s.bind((dev, 0))
mac = lambda m: bytes(int(x, 16) for x in m.split(':'))
ip = bytearray(struct.pack('!BBHHHBBH4s4s', 0x45, 0, 0, 0x4242, 0, 64, 1, 0, socket.inet_aton(src_ip), socket.inet_aton(dst_ip)))
t = sum(struct.unpack('!10H', bytes(ip)))
while t >> 16: t = (t & 0xffff) + (t >> 16)
ip[10:12] = struct.pack('!H', ~t & 0xffff)
icmp = struct.pack('!BBHHH', 0, 0, 0xffff, 0, 0)
frame = mac(dst_mac) + mac(src_mac) + b'\\x08\\x00' + bytes(ip) + icmp
frame += bytes(60 - len(frame))
end = time.time() + 30
while time.time() < end:
    s.send(frame)
    time.sleep(0.02)
'''

BIGPING = '''
import socket, struct, sys, time
s = socket.socket(socket.AF_INET, socket.SOCK_RAW, socket.IPPROTO_ICMP)
def csum(b):
    t = sum(struct.unpack('!%dH' % (len(b) // 2), b))
    while t >> 16: t = (t & 0xffff) + (t >> 16)
    return ~t & 0xffff
pl = bytes(1400)
n = 0
end = time.time() + 30
while time.time() < end:
    n += 1
    h = struct.pack('!BBHHH', 8, 0, 0, 0x7777, n & 0xffff)
    h = struct.pack('!BBHHH', 8, 0, csum(h + pl), 0x7777, n & 0xffff)
    try: s.sendto(h + pl, (sys.argv[1], 0))
    except OSError: pass
    time.sleep(0.003)
'''

LISTENER = '''
import socket
s = socket.socket(); s.setsockopt(socket.SOL_SOCKET, socket.SO_REUSEADDR, 1); s.bind(('0.0.0.0', 443)); s.listen(128)
cs = []
while True:
    c, _ = s.accept(); cs.append(c)
'''

def lab_run(ctx, s, prefix, cli_bin, runner_bin):
    """Builds the namespace topology of configuration s, runs the traceroute inside it, tears it down; returns trace events."""
    import subprocess, time as _t
    lab = os.path.join(vt.VERIF, 'lab', 'lab.sh')
    n = s['n']
    vt.sh([lab, 'down', prefix, str(n)])
    p = vt.sh([lab, 'up', prefix, str(n)] + [str(x) for x in s['silent']], env=dict(os.environ, LAB_REJECT=str(s.get('reject') or 0), LAB_ASYM='1' if s.get('asym') else '0', LAB_OUTDROP=str(s.get('outdrop') or 0)))
    lis = None
    try:
        if p.returncode != 0:
            raise Infra('lab up failed: ' + p.stdout[-800:])
        dst = '%sn%d' % (prefix, n + 1)
        if s['port'] in ('open', 'nosack'):
            if s['port'] == 'nosack':
                vt.sh(['ip', 'netns', 'exec', dst, 'sysctl', '-qw', 'net.ipv4.tcp_sack=0'])
            lis = subprocess.Popen(['ip', 'netns', 'exec', dst, 'python3', '-c', LISTENER], stdout=subprocess.DEVNULL, stderr=subprocess.DEVNULL)
            for _ in range(50):
                q = vt.sh(['ip', 'netns', 'exec', dst, 'sh', '-c', 'ss -ltn | grep -c :443'])
                if q.stdout.strip() not in ('', '0'):
                    break
                _t.sleep(0.05)
        tracer = prefix + 'n0'
        if s.get('kind') == 'labcli':
            # S02: the command line surface; the flags come from the spec verbatim
            q = subprocess.run(['timeout', '90', 'ip', 'netns', 'exec', tracer, cli_bin] + list(s['args']), stdout=subprocess.PIPE, stderr=subprocess.PIPE, text=True, errors='replace')
            out = {'ok': False, 'protocol': '', 'runs': [], 'e2e_sent': 0, 'errmsg': q.stderr[-200:]}
            if q.returncode == 0:
                try:
                    d = json.loads(q.stdout)
                    out = {'ok': True, 'protocol': d.get('protocol', ''), 'e2e_sent': d['e2e_probe']['packets_sent'], 'errmsg': '',
                           'runs': [{'dst': r['destination']['ip_address'], 'dport': r['destination']['port'],
                                     'hops': [{'ttl': h['ttl'], 'addr': h['ip_address'] or ''} for h in r['hops']]} for r in (d['traceroute']['runs'] or [])]}
                except Exception as e:
                    out['errmsg'] = 'unparseable document: %s' % e
            return [
                {'event': 'Begin', 'n': 0, 't': 0, 'idx': 0, 'twin': '', 'scen': s['id']},
                {'event': 'Params', 'n': 1, 't': 0, 'scen': s['id'], 'variant': 'labcli', 'entry': 'labcli', 'args': s['args'], 'expect_cli': s['expect_cli']},
                dict({'event': 'Return', 'n': 2, 't': 0, 'scen': s['id'], 'panic': '', 'has_result': out['ok']}, **out),
            ]
        req = s['req']
        if s.get('kind') == 'labsrv':
            # the real HTTP server binary (Server.Start: its own listener and http.Server settings) in the tracer's namespace, one GET
            srv_bin = os.path.join(ctx.scratch, 'traceroute-server')
            port = 3765
            srv = subprocess.Popen(['ip', 'netns', 'exec', tracer, srv_bin, '--addr', '127.0.0.1:%d' % port], stdout=subprocess.DEVNULL, stderr=subprocess.DEVNULL)
            out = {'ok': False, 'err': '', 'runs': [], 'rtts_us': []}
            t0 = _t.time()
            try:
                for _ in range(100):
                    if vt.sh(['ip', 'netns', 'exec', tracer, 'sh', '-c', 'ss -ltn | grep -c :%d' % port]).stdout.strip() not in ('', '0'):
                        break
                    _t.sleep(0.05)
                url = ('http://127.0.0.1:%d/traceroute?target=%s&protocol=%s&port=%d&traceroute-queries=%d&e2e-queries=%d&max-ttl=%d&timeout=%d'
                       % (port, req['hostname'], req['protocol'], req['port'], req['queries'], req['e2e'], req['max_ttl'], req['timeout_ms']))
                GET = ("import sys, urllib.request\n"
                       "try:\n"
                       "    r = urllib.request.urlopen(sys.argv[1], timeout=150)\n"
                       "    sys.stdout.write(str(r.status) + '\\n' + r.read().decode())\n"
                       "except Exception as e:\n"
                       "    sys.stdout.write('ERR\\n' + repr(e))\n")
                q = subprocess.run(['timeout', '170', 'ip', 'netns', 'exec', tracer, 'python3', '-c', GET, url], stdout=subprocess.PIPE, stderr=subprocess.PIPE, text=True, errors='replace')
                head, _, body = q.stdout.partition('\n')
                if head == '200':
                    d = json.loads(body)
                    runs = []
                    for r in d['traceroute']['runs'] or []:
                        runs.append({'src': r['source']['ip_address'], 'sport': r['source']['port'], 'dst': r['destination']['ip_address'], 'dport': r['destination']['port'],
                                     'hops': [{'ttl': h['ttl'], 'addr': h['ip_address'] or '', 'rtt_us': int(round(h['rtt'] * 1000)), 'dest': False, 'reach': h['reachable']} for h in r['hops']]})
                    out = {'ok': True, 'err': '', 'runs': runs, 'rtts_us': [int(round(x * 1000)) for x in (d['e2e_probe']['rtts'] or [])]}
                else:
                    out['err'] = ('no answer from the server: ' + q.stdout[-200:] + q.stderr[-100:])[:300]
            finally:
                srv.kill()
            elapsed_ms = int((_t.time() - t0) * 1000)
            return [
                {'event': 'Begin', 'n': 0, 't': 0, 'idx': 0, 'twin': '', 'scen': s['id']},
                {'event': 'Params', 'n': 1, 't': 0, 'scen': s['id'], 'variant': 'lab', 'entry': 'lab', 'strict': False, 'min': req['min_ttl'], 'max': req['max_ttl'],
                 'timeout_us': req['timeout_ms'] * 1000, 'delay_us': 20000, 'poll_us': 100000, 'target': req['hostname'], 'port': req['port'], 'cancel_us': 0, 'filter': False,
                 'queries': req['queries'], 'e2e': req['e2e'], 'cli': True, 'skip': False, 'srv': True, 'expect': s['expect'], 'bound_ms': 0},
                {'event': 'Return', 'n': 2, 't': 0, 'scen': s['id'], 'ok': bool(out['ok']), 'panic': '', 'notsupported': False,
                 'errmsg': out.get('err', '')[:200], 'runs': out['runs'], 'rtts_us': out['rtts_us'], 'has_result': bool(out['ok']), 'elapsed_ms': elapsed_ms},
            ]
        if s['cli']:
            cmd = ['ip', 'netns', 'exec', tracer, cli_bin, '--proto', req['protocol'], '-p', str(req['port']), '-q', str(req['queries']), '-Q', str(req['e2e']),
                   '--max-ttl', str(req['max_ttl']), '--timeout', str(req['timeout_ms'])]
            if req['tcp_method']:
                cmd += ['--tcp-method', req['tcp_method']]
            if req.get('want_v6'):
                cmd.append('--ipv6')
            if req.get('skip_private'):
                cmd.append('--skip-private-hops')
            cmd.append(req['hostname'])
        else:
            cmd = ['ip', 'netns', 'exec', tracer, runner_bin + ('_v' if req.get('echo_base') else ''), json.dumps(req)]
        noise = None
        if s.get('noise') == 'tso0':
            r1 = prefix + 'n1'
            m_tr = vt.sh(['ip', 'netns', 'exec', tracer, 'cat', '/sys/class/net/%sa0/address' % prefix]).stdout.strip()
            m_r1 = vt.sh(['ip', 'netns', 'exec', r1, 'cat', '/sys/class/net/%sb0/address' % prefix]).stdout.strip()
            noise = subprocess.Popen(['ip', 'netns', 'exec', r1, 'python3', '-c', TSO0, prefix + 'b0', m_tr, m_r1, '10.100.0.2', '10.100.0.1'], stdout=subprocess.DEVNULL, stderr=subprocess.DEVNULL)
            _t.sleep(0.2)
        if s.get('noise') == 'bigping':
            # unrelated large ICMP: 1400-byte echo requests to the destination (and their replies) while the traceroute runs
            noise = subprocess.Popen(['ip', 'netns', 'exec', tracer, 'python3', '-c', BIGPING, req['hostname']], stdout=subprocess.DEVNULL, stderr=subprocess.DEVNULL)
            _t.sleep(0.2)
        t0 = _t.time()
        if s.get('renumber') and not s['cli']:
            # one process, two identical requests; in between the tracer gets another address (and r1 learns it)
            pr = subprocess.Popen(['timeout', '90'] + cmd + ['twice'], stdin=subprocess.PIPE, stdout=subprocess.PIPE, stderr=subprocess.PIPE, text=True, errors='replace')
            first = pr.stdout.readline()
            dev0, dev1 = prefix + 'a0', prefix + 'b0'
            mac = vt.sh(['ip', 'netns', 'exec', tracer, 'cat', '/sys/class/net/%s/address' % dev0]).stdout.strip()
            vt.sh(['ip', '-n', tracer, 'addr', 'del', '10.100.0.1/24', 'dev', dev0])
            vt.sh(['ip', '-n', tracer, 'addr', 'add', '10.100.0.3/24', 'dev', dev0])
            vt.sh(['ip', '-n', tracer, 'route', 'replace', 'default', 'via', '10.100.0.2'])
            vt.sh(['ip', '-n', tracer, 'neigh', 'replace', '10.100.0.2', 'lladdr', vt.sh(['ip', 'netns', 'exec', prefix + 'n1', 'cat', '/sys/class/net/%s/address' % dev1]).stdout.strip(), 'dev', dev0, 'nud', 'permanent'])
            vt.sh(['ip', '-n', prefix + 'n1', 'neigh', 'del', '10.100.0.1', 'dev', dev1])
            vt.sh(['ip', '-n', prefix + 'n1', 'neigh', 'replace', '10.100.0.3', 'lladdr', mac, 'dev', dev1, 'nud', 'permanent'])
            so, se = pr.communicate('go\n')
            class _Q: pass
            q = _Q(); q.returncode = pr.returncode; q.stdout = so; q.stderr = se
            if 'FIRST-DONE' not in first:
                q.stdout = first + so
        else:
            q = subprocess.run(['timeout', '60'] + cmd, stdout=subprocess.PIPE, stderr=subprocess.PIPE, text=True, errors='replace')
        elapsed_ms = int((_t.time() - t0) * 1000)
        # 'repeat': the same invocation again and again; the first one that fails or loses a hop is the outcome
        def _shape(x):
            try:
                return [[h.get('ip_address') or '' for h in r['hops']] for r in json.loads(x.stdout)['traceroute']['runs']]
            except Exception:
                return None
        first = _shape(q)
        for _ in range(int(s.get('repeat') or 1) - 1):
            if q.returncode != 0 or first is None:
                break
            q2 = subprocess.run(['timeout', '60'] + cmd, stdout=subprocess.PIPE, stderr=subprocess.PIPE, text=True, errors='replace')
            if q2.returncode != 0 or _shape(q2) != first:
                q = q2          # this invocation differs from the first one: it is the outcome that is judged
                break
        if noise:
            noise.kill()
        out = {'ok': False, 'err': q.stderr[-300:], 'runs': [], 'rtts_us': []}
        if s['cli']:
            if q.returncode == 0:
                d = json.loads(q.stdout)
                runs = []
                for r in d['traceroute']['runs']:
                    runs.append({'src': r['source']['ip_address'], 'sport': r['source']['port'], 'dst': r['destination']['ip_address'], 'dport': r['destination']['port'],
                                 'hops': [{'ttl': h['ttl'], 'addr': h['ip_address'] or '', 'rtt_us': int(round(h['rtt'] * 1000)), 'dest': False, 'reach': h['reachable']} for h in r['hops']]})
                out = {'ok': True, 'err': '', 'runs': runs, 'rtts_us': [int(round(x * 1000)) for x in (d['e2e_probe']['rtts'] or [])]}
        else:
            try:
                out = json.loads(q.stdout.strip().splitlines()[-1])
            except Exception:
                if q.returncode == 124:         # the call did not return within 60 s (the bound of `timeout`): an outcome, not an infrastructure problem
                    out = {'ok': False, 'err': 'the request did not return within 60 s', 'runs': [], 'rtts_us': []}
                elif 'panic:' in q.stderr or 'fatal error:' in q.stderr:      # the process under test crashed
                    out = {'ok': False, 'err': 'process crashed: ' + q.stderr[q.stderr.find('panic:'):][:200], 'runs': [], 'rtts_us': []}
                else:
                    raise Infra('lab runner produced no result: rc=%s %s %s' % (q.returncode, q.stdout[-300:], q.stderr[-300:]))
    finally:
        if lis:
            lis.kill()
        vt.sh([lab, 'down', prefix, str(n)])
    return [
        {'event': 'Begin', 'n': 0, 't': 0, 'idx': 0, 'twin': '', 'scen': s['id']},
        {'event': 'Params', 'n': 1, 't': 0, 'scen': s['id'], 'variant': 'lab', 'entry': 'lab', 'strict': False, 'min': req['min_ttl'], 'max': req['max_ttl'],
         'timeout_us': req['timeout_ms'] * 1000, 'delay_us': 20000, 'poll_us': 100000, 'target': req['hostname'], 'port': req['port'], 'cancel_us': 0, 'filter': False,
         'queries': req['queries'], 'e2e': req['e2e'], 'cli': s['cli'], 'skip': bool(s.get('skip')), 'srv': False, 'expect': s['expect'], 'bound_ms': int(s.get('bound_ms') or 0)},
        {'event': 'Return', 'n': 2, 't': 0, 'scen': s['id'], 'ok': bool(out['ok']), 'panic': '', 'notsupported': 'SACK not supported' in out.get('err', ''),
         'errmsg': out.get('err', '')[:200], 'runs': out['runs'], 'rtts_us': out['rtts_us'], 'has_result': bool(out['ok']), 'elapsed_ms': elapsed_ms},
    ]

def lab_setup(ctx, gen):
    """Builds the binaries under test (no verif tag: real sockets) and returns (scenarios of the KernelPath family `gen`, run_all)."""
    import subprocess
    from concurrent.futures import ThreadPoolExecutor
    if vt.sh(['ip', 'netns', 'add', 'vtprobe%d' % os.getpid()]).returncode != 0:
        raise Infra('cannot create network namespaces (ip netns add failed)')
    vt.sh(['ip', 'netns', 'del', 'vtprobe%d' % os.getpid()])
    out = os.path.join(ctx.scratch, 'lab.ndjson')
    r = vt.run_tlc('KernelPath', env={'VT_N': '3' if ctx.quick() else '5', 'VT_TIER': ctx.tier, 'VT_OUT': out, 'VT_GEN': gen}, workers=1, timeout=120)
    if not r.ok():
        raise Infra('KernelPath failed: ' + vt.filtered(r.out, 20))
    scen = [json.loads(l) for l in open(out) if l.strip()]
    # the binaries under test: the CLI of the working tree and a RunTraceroute driver, both WITHOUT the verif tag (real sockets)
    cli = os.path.join(ctx.scratch, 'datadog-traceroute'); runner = os.path.join(ctx.scratch, 'runner')
    p = vt.sh(['go', 'build', '-o', cli, '.'], cwd=vt.REPO, env=vt.goenv())
    if p.returncode != 0:
        raise Infra('building the CLI failed: ' + p.stdout[-1500:])
    import shutil
    shutil.copy(os.path.join(vt.REPO, 'go.sum'), os.path.join(vt.VERIF, 'lab', 'runner', 'go.sum'))
    p = vt.sh(['go', 'build', '-o', runner, '.'], cwd=os.path.join(vt.VERIF, 'lab', 'runner'), env=vt.goenv())
    if p.returncode != 0:
        raise Infra('building the lab runner failed: ' + p.stdout[-1500:])
    if any((x.get('req') or {}).get('echo_base') for x in scen):
        # the same driver with the hooks compiled in (real sockets all the same: the constructor seam stays unset), to position an allocator
        p = vt.sh(['go', 'build', '-tags', 'verif', '-o', runner + '_v', '.'], cwd=os.path.join(vt.VERIF, 'lab', 'runner'), env=vt.goenv())
        if p.returncode != 0:
            raise Infra('building the tagged lab runner failed: ' + p.stdout[-1500:])
    if any(x.get('kind') == 'labsrv' for x in scen):
        p = vt.sh(['go', 'build', '-o', os.path.join(ctx.scratch, 'traceroute-server'), './cmd/traceroute-server'], cwd=vt.REPO, env=vt.goenv())
        if p.returncode != 0:
            raise Infra('building the HTTP server binary failed: ' + p.stdout[-1500:])
    pid = os.getpid() % 10000
    def one(args):
        k, s = args
        return lab_run(ctx, s, 'v%dx%d' % (pid, k % 1000), cli, runner)
    def run_all(ss, name):
        with ThreadPoolExecutor(max_workers=6) as ex:
            evs = list(ex.map(one, list(enumerate(ss))))
        tp = os.path.join(ctx.scratch, name + '.trace.ndjson')
        with open(tp, 'w') as f:
            for es in evs:
                for e in es:
                    f.write(json.dumps(e) + '\n')
        return tp, evs
    return scen, run_all

def lab_family(ctx, prop, gen):
    """Runs the kernel-lab configurations of family `gen`, judges them with property `prop` (a mismatch must recur 3/3)."""
    scen, run_all = lab_setup(ctx, gen)
    tp, evs = run_all(scen, 'lab')
    ctx.evaluations += len(scen); ctx.validated += len(scen)
    ctx.nontrivial.update(s['label'] for s in scen)
    ctx.states += len(scen); ctx.transitions += len(scen)      # KernelPath is a finite configuration space, not a transition system
    ctx.samples.append({'configuration': scen[0], 'observed': evs[0][-1]})
    viol = [sid for pr, sid in vt.observe(ctx, [tp], [prop]) if pr == prop]
    by = {s['id']: s for s in scen}
    for sid in viol[:8]:
        # real time, real kernel: a mismatch must reproduce 3 out of 3 times, otherwise the check is inconclusive
        tp2, evs2 = run_all([by[sid]] * 3, 'confirm')
        # three copies share one id: evaluate them one by one
        bad = 0
        for es in evs2:
            one_tp = os.path.join(ctx.scratch, 'confirm1.trace.ndjson')
            open(one_tp, 'w').write(''.join(json.dumps(e) + '\n' for e in es))
            if any(pr == prop for pr, _ in vt.observe(ctx, [one_tp], [prop])):
                bad += 1
        if bad < 3:
            # real time on a shared machine: a mismatch that does not recur in three rebuilt labs is transient and is not
            # evidence about the code; it is recorded, not reported
            ctx.notes.append('kernel-lab mismatch on %s recurred only %d/3 times: transient, not a verdict' % (sid, bad))
            ctx.extra.setdefault('transient_mismatches', []).append({'scenario': sid, 'recurred': bad})
            print('NOTE transient kernel-lab mismatch on %s (recurred %d/3)' % (sid, bad))
            continue
        label = by[sid]['label']
        known = [k for k in vt.load_known() if k.get('status') == 'known' and k['property'] == prop]
        import fnmatch
        kf = [k for k in known if fnmatch.fnmatchcase(label, k['signature'])]
        if kf:
            ctx.known.append((prop, label, kf[0].get('what', '')))
            continue
        d = vt.save_replay(ctx, prop, [by[sid]], evs2[0], 'kernel lab configuration; observed vs KernelPath!Expected')
        ctx.violations.append((prop, label, sid, d))

def check_C13(ctx):
    lab_family(ctx, 'C13', 'C13')
    ctx.extra['rule'] = ('configurations enumerated by TLC from KernelPath.tla (path length, variant, destination port open/closed/SACK-disabled, silent routers, first TTL, '
                         'concurrent runs, CLI vs library) built as chains of network namespaces with kernel routers; the CLI / a RunTraceroute driver built from the working tree '
                         '(no verif tag: AF_PACKET source, raw sink, attach-and-drain) runs inside; its JSON is validated by TLC against KernelPath!Expected; distinct by label')
    ctx.assumptions.append('real time and the real kernel: 500 ms timeouts against ~0.1 ms RTTs, ICMP rate limiting off; a mismatch must reproduce 3/3 or the check exits 2')
    vt.write_evidence(ctx, 'model_checking', ctx.extra['rule'], exhaustive=True)

def check_C07(ctx):
    cfgs = ['EngineParallelMC.cfg', 'EngineParallelMC_faults.cfg', 'EngineParallelMC_faults3.cfg', 'EngineParallelMC_long.cfg']
    if not ctx.quick():
        cfgs += ['EngineParallelMC_4.cfg', 'EngineParallelMC_hi.cfg']
    engines(ctx, 'C07', cfgs, [], ['C07'])
    rule = ctx_rule(ctx)
    # the same two rules through the real drivers: several accepted replies to one probe on the wire
    scen = vt.tlc_generate(ctx, 'GenWire', 'C07', 0)
    scen += [s for s in vt.tlc_generate(ctx, 'GenWire', 'C05', 0) if ('/dup' in s['id'] and '/dup0' not in s['id'] and s['variant'] not in ('tcp', 'tcp_paris'))][ctx.seed % 3::3 if ctx.quick() else 1]
    wire_family(ctx, 'C07', scen, rule, nontrivial=delivered_something)
    ctx.extra['rule'] = rule + '; plus GenWire!C07All (router/destination/second-router replies to ONE probe in every order, 1 ms and 150 ms apart, every parallel-capable variant) and the duplicate scenarios of C05All through the protocol entry points, judged by Props!C07_run'
    vt.write_evidence(ctx, 'model_checking', ctx_rule(ctx), exhaustive=True)

CHECKS = {
    'C01': check_C01, 'C02': check_C02, 'C03': check_C03, 'C04': check_C04, 'C05': check_C05, 'C06': check_C06, 'C07': check_C07, 'C08': check_C08, 'C09': check_C09, 'C10': check_C10, 'C11': check_C11, 'C12': check_C12, 'C13': check_C13, 'C14': check_C14, 'C15': check_C15, 'C16': check_C16, 'C17': check_C17, 'C18': check_C18, 'C20': check_C20, 'C19': check_C19,
}

def replay(ctx, path):
    scen = [json.loads(l) for l in open(os.path.join(path, 'scenario.ndjson')) if l.strip()]
    if scen and str(scen[0].get('kind', '')).startswith('lab'):
        # a kernel-lab configuration: rebuilt as namespaces, the binaries of the working tree run inside
        _, run_all = lab_setup(ctx, 'C15' if scen[0]['kind'] == 'labsrv' else 'C13')
        tp, _ = run_all(scen, 'replay')
        traces = [tp]
    else:
        vt.build_harness(ctx)
        traces = vt.run_harness(ctx, scen, 'replay', shards=1)
    viol = vt.observe(ctx, traces, [ctx.prop])
    for p, sid in viol:
        print('VIOLATION property=%s replay=%s' % (p, path))
    print('replayed %d scenario(s): %d violation(s)' % (len(scen), len(viol)))
    return 1 if viol else 0
