#!/bin/sh
# Offline setup: copy the repository's go.sum next to the harness module, build the harness once (warms the
# go build cache) and parse every TLA+ module.
set -e
cd "$(dirname "$0")/.."
export GOFLAGS=-mod=mod GOPROXY=off
unset GOTOOLCHAIN GOSUMDB || true
cp /repo/go.sum harness/go.sum
(cd harness && go test -c -tags verif -o /dev/null . )
T=$(mktemp -d)
export JAVA_TOOL_OPTIONS="-Djava.io.tmpdir=$T"      # SANY unpacks its standard modules into java.io.tmpdir
cp spec/*.tla "$T"/
for f in "$T"/*.tla; do
  case "$f" in */ClipProof.tla|*/AllocApa.tla|*_TTrace_*) continue;; esac      # a TLAPS proof module (tlapm, check C03) and an Apalache module (apalache-mc, check C11): their library modules are not on SANY's path
  # (tla-sany exits 0 on semantic errors: its output decides)
  o=$(cd "$T" && tla-sany "$(basename "$f")" 2>&1) || { echo "SANY failed on $f"; echo "$o" | tail -5; rm -rf "$T"; exit 1; }
  case "$o" in *"*** Errors"*|*"Unknown operator"*|*"*** Abort"*|*"Parse Error"*|*"Fatal errors"*) echo "SANY failed on $f"; echo "$o" | tail -8; rm -rf "$T"; exit 1;; esac
done
rm -rf "$T"
echo setup ok
