#!/bin/sh
# seedshell.sh <seeded-id> <command...> : runs a command with a patched copy of /repo bind-mounted over /repo in a private mount
# namespace (/repo itself is never touched). For debugging the checks against one seeded change.
id=$1; shift
cp=/tmp/vt/rs.$id.$$
rm -rf $cp; git clone -q --no-hardlinks /repo $cp || exit 2
git -C $cp apply /verif/seeded/$id/patch.diff || { rm -rf $cp; exit 2; }
unshare -m --propagation private sh -c "mount --bind $cp /repo && $*"
rc=$?
rm -rf $cp
exit $rc
