#!/usr/bin/env python3
import json, sys, glob, jsonschema
m = json.load(open('/verif/MANIFEST.json'))
jsonschema.validate(m, json.load(open('/root/.vp/MANIFEST.schema.json')))
es = json.load(open('/root/.vp/EVIDENCE.schema.json'))
ids = [json.loads(l)['id'] for l in open('/verif/properties.jsonl')]
claimed = [c['property_id'] for c in m['checks']]
na = [c['property_id'] for c in m.get('not_applicable', [])]
assert sorted(claimed + na) == sorted(ids), (sorted(set(ids) - set(claimed + na)), [x for x in claimed if x in na])
for c in m['checks']:
    f = c['evidence_file']
    try:
        jsonschema.validate(json.load(open(f)), es)
    except FileNotFoundError:
        print('missing evidence', f)
print('manifest ok; claimed', claimed)
