#!/bin/sh
# import_r3.sh <Cxx> : copies the round-6 seeded changes of a sub-agent (/tmp/mut6/Cxx/MUT/m1, m2) to /verif/seeded/Cxx-r6m<i>
P=$1
for i in 1 2; do
  S=/tmp/mut6/$P/MUT/m$i; D=/verif/seeded/$P-r6m$i
  [ -f $S/patch.diff ] || { echo "missing $S"; continue; }
  mkdir -p $D; cp $S/* $D/; echo "imported $D: $(ls $D | tr '\n' ' ')"
done
