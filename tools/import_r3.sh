#!/bin/sh
# import_r3.sh <Cxx> : copies the round-3 seeded changes of a sub-agent (/tmp/mut3/Cxx/MUT/m1, m2) to /verif/seeded/Cxx-r3m<i>
P=$1
for i in 1 2; do
  S=/tmp/mut3/$P/MUT/m$i; D=/verif/seeded/$P-r3m$i
  [ -f $S/patch.diff ] || { echo "missing $S"; continue; }
  mkdir -p $D; cp $S/* $D/; echo "imported $D: $(ls $D | tr '\n' ' ')"
done
