#!/bin/sh
# seedall.sh <ID>  : import /tmp/mut/<ID>/MUT/m{1,2} into /verif/seeded/, confirm each in a scratch worktree, run the property's check on it
ID=$1
for m in m1 m2; do
  src=/tmp/mut/$ID/MUT/$m
  [ -f $src/patch.diff ] || { echo "$ID $m: no patch"; continue; }
  dst=/verif/seeded/$ID-$m
  rm -rf $dst; mkdir -p $dst; cp $src/* $dst/ 2>/dev/null
  if /verif/tools/confirm_seed.sh $dst | tail -1; then
    echo "$ID $m confirmed"
    python3 /verif/tools/seedtest.py $dst | sed 's/^/    /'
  else
    echo "$ID $m NOT confirmed"; touch $dst/UNCONFIRMED
  fi
done
