#!/bin/sh
# Runs "$@" in a private network namespace with AnyIP routes so that arbitrary IPv4/IPv6 targets are
# routable (local != target), nothing leaves the namespace, and loopback listeners can bind the targets; in a private mount
# namespace /etc/hosts is the harness's own file (names four.test, six.test, dual46.test, dual64.test).
H=$(cd "$(dirname "$0")/../harness" && pwd)/hosts
exec unshare -n -m --propagation private sh -c '
mount --bind "$0" /etc/hosts
ip link set lo up
ip addr add 10.77.0.1/32 dev lo
ip route add local 198.51.100.0/24 dev lo src 10.77.0.1
ip route add local 203.0.113.0/24 dev lo src 10.77.0.1
ip route add default dev lo src 10.77.0.1
ip -6 addr add 2001:db8:77::1/128 dev lo
ip -6 route add local 2001:db8:99::/48 dev lo src 2001:db8:77::1
ip -6 route add default dev lo src 2001:db8:77::1
sysctl -qw net.ipv4.ip_nonlocal_bind=1 net.ipv6.ip_nonlocal_bind=1 2>/dev/null
exec "$@"' "$H" "$@"
