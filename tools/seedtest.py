#!/usr/bin/env python3
"""seedtest.py <seeded dir> [check ids...]   apply the seeded change to /repo, run the checks (default: the property it breaks),
undo it, and report which checks detect it. Never commits anything in /repo."""
import json, os, subprocess, sys, time
d = os.path.abspath(sys.argv[1])
meta = json.load(open(os.path.join(d, 'meta.json')))
checks = sys.argv[2:] or [meta['property']]
def sh(cmd, **kw):
    return subprocess.run(cmd, stdout=subprocess.PIPE, stderr=subprocess.STDOUT, text=True, **kw)
st = sh(['git', '-C', '/repo', 'status', '--porcelain']).stdout.strip()
if st:
    print('refusing: /repo has local changes'); sys.exit(2)
p = sh(['git', '-C', '/repo', 'apply', os.path.join(d, 'patch.diff')])
if p.returncode != 0:
    print('apply failed', p.stdout); sys.exit(2)
res = {}
try:
    for c in checks:
        t0 = time.time()
        q = sh(['/verif/check', c, '--tier', os.environ.get('VERIF_TIER', 'quick')], cwd='/verif')
        viol = [l for l in q.stdout.splitlines() if l.startswith('VIOLATION')]
        res[c] = {'rc': q.returncode, 'violations': len(viol), 'wall_s': round(time.time() - t0, 1), 'tail': q.stdout.strip().splitlines()[-3:]}
        print(c, 'rc=%d' % q.returncode, 'violations=%d' % len(viol), '%.0fs' % (time.time() - t0))
        for l in q.stdout.strip().splitlines()[-4:]:
            print('   ', l[:220])
finally:
    sh(['git', '-C', '/repo', 'checkout', '--', '.'])
    sh(['git', '-C', '/repo', 'clean', '-fdq'])
    sh(['rm', '-rf', '/verif/replays'])
json.dump(res, open(os.path.join(d, 'detection.json'), 'w'), indent=1)
