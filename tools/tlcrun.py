#!/usr/bin/env python3
"""Run TLC on a spec in a scratch copy of /verif/spec with a timeout and parse its output."""
import os, re, shutil, subprocess, sys, tempfile, time

SPEC_DIR = os.path.join(os.path.dirname(os.path.abspath(__file__)), '..', 'spec')

class TLCResult:
    def __init__(self):
        self.rc = None; self.out = ''; self.generated = 0; self.distinct = 0; self.depth = 0
        self.prints = []; self.errors = []; self.timeout = False; self.wall = 0.0
        self.violated = []    # invariant / property names TLC reported violated
        self.postcondition_ok = True
    def ok(self):
        return self.rc == 0 and not self.errors and not self.timeout

def run_tlc(module, cfg=None, env=None, workers='auto', timeout=600, extra=None, simulate=None, heap=None, keep=None, deque=False, files=None):
    """module: name without .tla inside spec dir. Returns TLCResult."""
    res = TLCResult()
    scratch = tempfile.mkdtemp(prefix='vt-tlc-')
    try:
        for f in os.listdir(SPEC_DIR):
            if f.endswith('.tla') or f.endswith('.cfg') or f.endswith('.json'):
                shutil.copy(os.path.join(SPEC_DIR, f), scratch)
        for name, content in (files or {}).items():
            with open(os.path.join(scratch, name), 'w') as f:
                f.write(content)
        cmd = ['tlc', '-workers', str(workers), '-metadir', os.path.join(scratch, 'md'), '-noGenerateSpecTE',
               '-config', cfg or (module + '.cfg')]
        if simulate:
            cmd += ['-simulate', simulate]
        if extra:
            cmd += extra
        cmd += [module + '.tla']
        e = dict(os.environ)
        if env:
            e.update({k: str(v) for k, v in env.items()})
        jopts = e.get('JAVA_TOOL_OPTIONS', '')
        if deque:
            jopts += ' -Dtlc2.tool.queue.IStateQueue=StateDeque'
        jopts += ' -Xss64m -Djava.io.tmpdir=' + scratch      # SANY unpacks its standard modules into java.io.tmpdir
        if heap:
            jopts += ' -Xmx' + heap
        e['JAVA_TOOL_OPTIONS'] = jopts.strip()
        t0 = time.time()
        try:
            p = subprocess.run(['timeout', str(timeout)] + cmd, cwd=scratch, env=e, stdout=subprocess.PIPE, stderr=subprocess.STDOUT, text=True, errors='replace')
            res.rc = p.returncode; res.out = p.stdout
            if p.returncode == 124:
                res.timeout = True
        finally:
            res.wall = time.time() - t0
        pending = None
        for line in res.out.splitlines():
            m = re.match(r'^(\d+) states generated, (\d+) distinct states found', line)
            if m:
                res.generated, res.distinct = int(m.group(1)), int(m.group(2))
            m = re.match(r'^The depth of the complete state graph search is (\d+)', line)
            if m:
                res.depth = int(m.group(1))
            pending = _tuple_lines(pending, line, res.prints)
            if line.startswith('Error:'):
                res.errors.append(line)
            m = re.match(r'^Error: Invariant (\S+) is violated', line)
            if m:
                res.violated.append(m.group(1))
            m = re.match(r'^Error: Action property (\S+) is violated', line)
            if m:
                res.violated.append(m.group(1))
            if 'Temporal properties were violated' in line:
                res.violated.append('temporal')
            if 'POSTCONDITION' in line.upper() and 'violated' in line.lower():
                res.postcondition_ok = False
        if keep:
            with open(keep, 'w') as f:
                f.write(res.out)
        return res
    finally:
        shutil.rmtree(scratch, ignore_errors=True)

def _depth(text):
    """nesting depth of << >> in text, ignoring string literals"""
    d = 0; i = 0; instr = False
    while i < len(text):
        c = text[i]
        if instr:
            if c == '\\':
                i += 1
            elif c == '"':
                instr = False
        elif c == '"':
            instr = True
        elif text.startswith('<<', i):
            d += 1; i += 1
        elif text.startswith('>>', i):
            d -= 1; i += 1
        i += 1
    return d

def _tuple_lines(pending, line, prints):
    """Collects the tuples TLC prints (PrintT). TLC pretty-prints a value longer than 80 columns over several lines
    ('<< "L1",' / '   "C02",' / ... / '   119 >>'): such a block is joined and brought to the compact one-line form."""
    if pending is None:
        if not line.startswith('<<'):
            return None
        pending = line.strip()
    else:
        pending += ' ' + line.strip()
    if _depth(pending) > 0:
        return pending if len(pending) < 10**6 else None
    t = pending
    if t.endswith('>>'):
        if t.startswith('<< '):
            t = re.sub(r'<< ', '<<', re.sub(r' >>', '>>', t))
        prints.append(t)
    return None

def filtered(out, n=60):
    keep = []
    skip = False
    for l in out.splitlines():
        if re.match(r'^(Parsing|Semantic|Linting|Starting|TLC2|Running|Computing|Finished computing|Progress|Warning: Please)', l):
            continue
        keep.append(l[:400])
    return '\n'.join(keep[:n])

if __name__ == '__main__':
    import argparse
    ap = argparse.ArgumentParser()
    ap.add_argument('module'); ap.add_argument('--cfg'); ap.add_argument('--timeout', type=int, default=600)
    ap.add_argument('--workers', default='auto'); ap.add_argument('--env', action='append', default=[])
    ap.add_argument('--simulate'); ap.add_argument('--deque', action='store_true'); ap.add_argument('--lines', type=int, default=60)
    a = ap.parse_args()
    env = dict(x.split('=', 1) for x in a.env)
    r = run_tlc(a.module, a.cfg, env, a.workers, a.timeout, simulate=a.simulate, deque=a.deque)
    print(filtered(r.out, a.lines))
    print('rc', r.rc, 'generated', r.generated, 'distinct', r.distinct, 'wall %.1f' % r.wall, 'violated', r.violated)
