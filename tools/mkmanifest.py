#!/usr/bin/env python3
"""Regenerates MANIFEST.json from the table below (claimed checks) and properties.jsonl (the rest -> not_applicable)."""
import json, subprocess
WIRE = 'TLA+ environment spec enumerated by TLC -> replay into the real entry points (simulated wire, virtual clock) -> TLC trace validation against Props.tla (L1) and the design prediction Conform.tla (L2); exhaustive TLC design check of the matcher/engine specs'
ENG = 'TLA+ timed engine spec model-checked exhaustively by TLC; every TLC behaviour class (environment script) replayed into the real engine and the real output checked against the set of outputs the spec allows; traces validated by the TLA+ observer'
TRUST = 'trusted: TLC; the harness (independent codec, simulated wire, scripted driver); Go testing/synctest virtual clock; the verif-tagged constructor seam; bounds as stated in the evidence file'
C = {
 'C01': ('model_checking', WIRE, 'perturbation lattice of GenWire!C01All enumerated exhaustively; MatcherMC design invariants'),
 'C02': ('model_checking', WIRE, 'device catalogue: fixed core + seeded sample of the full encoding product (exhaustive in thorough tier up to the stated sample)'),
 'C03': ('model_checking', ENG, 'both engines, free driver, small scripts exhaustively + 254..255 and 1..255 ranges; shape formula also on wire runs'),
 'C04': ('model_checking', WIRE, 'responder x form matrix exhaustively for every variant'),
 'C05': ('model_checking', ENG + '; ' + WIRE, 'engine specs prove rtt = accept - send of the same probe for all interleavings; wire runs at production-scale timers'),
 'C06': ('model_checking', ENG + '; ' + WIRE, 'engine specs: order, pacing, stop-after-destination for all interleavings; wire runs decode every emitted probe with an independent codec'),
 'C07': ('model_checking', ENG, 'all interleavings of sender/receiver/network up to 3 (quick) or 4 (thorough) TTLs, <=2 replies per TTL'),
 'C08': ('model_checking', ENG + '; ' + WIRE, 'engine specs: bound and prompt cancellation for every cancellation instant of a grid incl. ties; wire runs: silence, floods, handshake stalls'),
 'C09': ('exploration', WIRE + ' (junk classes from the spec, bytes concretised by the harness incl. seeded random strings)', 'TLC supplies classes, instants and the expected effect (none); the byte space is sampled, not model-checked'),
 'C10': ('model_checking', ENG + '; ' + WIRE, 'every (operation, k, class) injection point TLC enumerates, on all protocol entry points; handle log and goroutine census checked by the observer'),
 'C11': ('model_checking', WIRE + '; Alloc.tla (allocator interleavings) and MatcherMC!C11_Design', 'shared-wire concurrency scenarios; every reported run must equal the design prediction for one wire run alone'),
 'C12': ('model_checking', 'Bpf.tla: classic-BPF interpreter in TLA+ run by TLC on the instructions extracted from the working tree, exhaustively over the frame class space, against declarative reference predicates; sampled frames re-run on the real x/net/bpf VM; end-to-end filter on/off twins over the wire', 'exhaustive over the stated frame classes for 40 filter configurations'),
 'C16': ('model_checking', 'Result.tla document algebra checked exhaustively in small scope; TLC-enumerated documents built as real result.Results; the marshalled JSON validated by TLC (DocProps) and compared with the algebra', 'small-scope exhaustive; floats as 1/1000 integers with 1-unit tolerance'),
 'C17': ('model_checking', 'Result.tla (redaction relations) + TLC-enumerated boundary-address documents and wire scenarios through RunTraceroute / the HTTP handler, JSON validated by TLC', 'every private block boundary, mapped forms, with/without enrichment'),
 'C18': ('model_checking', 'Enrich.tla: cache state machine (TLC exhaustive, every operation sequence replayed on the real cache and its DNS user), provider scripts (10^3 replayed on publicip.GetPublicIP), enrichment documents', 'all operation sequences up to the stated length; all provider behaviour triples'),
 'C13': ('model_checking', 'KernelPath.tla enumerates the finite configuration space and the expected document; every configuration is built from kernel routers in network namespaces and traced by the CLI / library built from the working tree on real sockets; the JSON is validated by TLC', 'finite configuration space explored completely at the stated path lengths; replies come from the kernel stack, real time (3/3 reproduction rule)'),
 'C14': ('exploration', 'Locks.tla (vector-clock model of the synchronisation skeleton, TLC exhaustive) + TLC-enumerated schedule classes executed on the real engines/drivers built with -race over an unsynchronised wire; verdict from the Go race detector', 'TLA+ supplies schedules and the design-level happens-before model; memory accesses of uninstrumented code are observed by the race detector (trusted base)'),
 'C15': ('model_checking', 'Multi.tla (runTracerouteMulti: all failing subsets x completion orders, TLC exhaustive, liveness) + ' + WIRE, 'request-level scenarios through RunTraceroute'),
 'C19': ('model_checking', 'Params.tla (code decision path = property meaning over the whole lattice, TLC exhaustive) + ' + WIRE, 'every lattice point executed through RunTraceroute / the HTTP handler'),
 'C20': ('model_checking', 'TcpPolicy.tla (code path = policy, TLC exhaustive) + ' + WIRE, 'all 108 method x capability x failure cases executed'),
}
props = [json.loads(l) for l in open('/verif/properties.jsonl')]
commits = subprocess.run(['git', '-C', '/repo', 'log', '--format=%h %s'], stdout=subprocess.PIPE, text=True).stdout.splitlines()
hooks = [c.split()[0] for c in commits if c.split(' ', 1)[1].startswith('verif hook')][::-1]
m = {
 'version': 1,
 'setup_cmd': './tools/setup.sh',
 'hooks': {'guard': 'verif', 'enable': 'go test -c -tags verif (harness module /verif/harness with replace => /repo)',
           'baseline_off_cmd': 'cd /repo && GOFLAGS=-mod=mod GOPROXY=off go test -vet=off -count=1 ./...',
           'source_commits': hooks, 'add_only': True},
 'engines': [{'name': 'tlc-mbt', 'path': 'check', 'serves_properties': sorted(C.keys()),
              'kind_free_text': 'explicit TLA+ specs (spec/*.tla) checked by TLC; TLC-generated environments replayed into the real code; recorded traces validated by TLC'}],
 'checks': [], 'not_applicable': [],
 'notes': 'exit 0 held / 1 VIOLATION / 2 infrastructure-or-inconclusive. VERIF_SEED seeds TLC (-seed) and sampling. See DESIGN.md.',
}
for p in props:
    i = p['id']
    if i in C:
        lvl, tech, note = C[i]
        m['checks'].append({'property_id': i, 'quick_cmd': './check %s --tier quick' % i, 'thorough_cmd': './check %s --tier thorough' % i,
            'evidence_file': '/verif/evidence/%s.json' % i, 'replay_cmd_template': './check %s --replay {path}' % i, 'engine': 'tlc-mbt',
            'level_claimed': {'category': lvl, 'text': note, 'design_ref': 'DESIGN.md section 5 (%s)' % i},
            'level_note': TRUST, 'technique': tech})
    else:
        m['not_applicable'].append({'property_id': i, 'reason': 'not claimed'})
json.dump(m, open('/verif/MANIFEST.json', 'w'), indent=1)
print('claimed', sorted(C.keys()))
