#!/bin/sh
# confirm_seed.sh <dir with patch.diff, meta.json, demo file>   : confirms in a scratch worktree of /repo that the change
# compiles, passes the existing suite, and that the demonstration fails with it and passes without it. Prints a summary line.
set -u
D=$(cd "$1" && pwd)
export GOFLAGS=-mod=mod GOPROXY=off
W=$(mktemp -d /tmp/seedchk.XXXXXX); rmdir "$W"
git -C /repo worktree add --detach "$W" HEAD -q || exit 2
cleanup() { git -C /repo worktree remove --force "$W" 2>/dev/null; rm -rf "$W"; [ -n "${KEEP_LOGS:-}" ] || rm -f "$W".*.log; }
trap cleanup EXIT
demo_path=$(python3 -c "import json,sys; print(json.load(open('$D/meta.json'))['demo_path'])")
demo_cmd=$(python3 -c "import json,sys; print(json.load(open('$D/meta.json'))['demo_cmd'])")
demo_file=$(ls "$D" | grep -v 'patch.diff\|meta.json\|NOTES\|notes.txt\|detection.json\|confirm.txt' | head -1)
mkdir -p "$W/$(dirname "$demo_path")"
cp "$D/$demo_file" "$W/$demo_path"
cd "$W"
# 1. demo passes on clean code
sh -c "$demo_cmd" > $W.clean.log 2>&1; clean_rc=$?
# 2. apply the change
git apply "$D/patch.diff" || { echo "RESULT $D apply-failed"; exit 1; }
go build ./... > $W.build.log 2>&1; build_rc=$?
sh -c "$demo_cmd" > $W.mut.log 2>&1; mut_rc=$?
# 3. the existing suite (without the demo file) must still pass with the change
rm -f "$W/$demo_path"
go test -vet=off -count=1 ./... > $W.suite.log 2>&1; suite_rc=$?
echo "RESULT $D demo_clean_rc=$clean_rc build_rc=$build_rc demo_mutant_rc=$mut_rc suite_rc=$suite_rc"
[ $clean_rc -eq 0 ] && [ $build_rc -eq 0 ] && [ $mut_rc -ne 0 ] && [ $suite_rc -eq 0 ]
