#!/usr/bin/env python3
"""Builds seeded/README.md from seeded/*/meta.json + detection.json (+ notes.txt written by hand)."""
import glob, json, os
rows = []
for d in sorted(glob.glob('/verif/seeded/*/')):
    mp = os.path.join(d, 'meta.json')
    if not os.path.exists(mp):
        continue
    m = json.load(open(mp))
    det = json.load(open(os.path.join(d, 'detection.json'))) if os.path.exists(os.path.join(d, 'detection.json')) else {}
    note = open(os.path.join(d, 'notes.txt')).read().strip() if os.path.exists(os.path.join(d, 'notes.txt')) else ''
    unconf = os.path.exists(os.path.join(d, 'UNCONFIRMED'))
    caught = ', '.join('%s (%d violation%s, %.0fs)' % (c, r['violations'], '' if r['violations'] == 1 else 's', r['wall_s']) for c, r in det.items() if r['rc'] == 1)
    missed = ', '.join('%s (rc=%d)' % (c, r['rc']) for c, r in det.items() if r['rc'] != 1)
    rows.append((os.path.basename(d.rstrip('/')), m.get('property', '?'), m.get('summary', '').replace('\n', ' '), m.get('needs', '').replace('\n', ' '),
                 'NOT CONFIRMED (dropped)' if unconf else (caught or '-'), missed, note))
with open('/verif/seeded/README.md', 'w') as f:
    f.write('# Seeded changes\n\nEach directory: `patch.diff` (never committed to /repo), the demonstration, `meta.json` (what it breaks, what it needs to manifest, '
            'what the author ran), `detection.json` (what `tools/seedtest.py` observed: the check(s) run with the change applied to /repo, then undone). '
            'Every change listed as confirmed compiles, passes the 201 existing tests, and its demonstration fails with it and passes without it '
            '(`tools/confirm_seed.sh`, scratch worktree).\n\n')
    f.write('| id | property | change | needs | caught by (quick tier) | not caught by | notes |\n|---|---|---|---|---|---|---|\n')
    for r in rows:
        f.write('| ' + ' | '.join(x.replace('|', '/') for x in r) + ' |\n')
print(len(rows), 'rows')
