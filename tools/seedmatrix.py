#!/usr/bin/env python3
"""seedmatrix.py [--checks own|all] [ids...]  : runs every seeded change against the checks WITHOUT touching /repo: each job gets a private
copy of /repo with the change applied, bind-mounted over /repo in a private mount namespace (unshare -m). Results go to
/tmp/vt/matrix/<id>.json (import them with --collect). Meant to be started with `vp run` from a committed snapshot of /verif."""
import glob, json, os, shutil, subprocess, sys, time
from concurrent.futures import ThreadPoolExecutor
HERE = os.path.abspath(os.path.join(os.path.dirname(os.path.abspath(__file__)), '..'))
OUT = os.environ.get('VT_MATRIX_OUT', '/tmp/vt/matrix')
ALL = ['C%02d' % i for i in range(1, 21)]

def job(d, checks):
    sid = os.path.basename(d.rstrip('/'))
    meta = json.load(open(os.path.join(d, 'meta.json')))
    cp = '/tmp/vt/rc.%s.%d' % (sid, os.getpid())
    shutil.rmtree(cp, ignore_errors=True)
    subprocess.run(['git', 'clone', '-q', '--no-hardlinks', '/repo', cp], check=True)
    p = subprocess.run(['git', '-C', cp, 'apply', os.path.join(d, 'patch.diff')], stdout=subprocess.PIPE, stderr=subprocess.STDOUT, text=True)
    res = {}
    if p.returncode != 0:
        res['_apply'] = p.stdout
    else:
        for c in (checks or [meta['property']]):
            t0 = time.time()
            q = subprocess.run(['unshare', '-m', '--propagation', 'private', 'sh', '-c',
                                'mount --bind %s /repo && cd %s && timeout 1500 ./check %s --tier quick' % (cp, HERE, c)],
                               stdout=subprocess.PIPE, stderr=subprocess.STDOUT, text=True)
            viol = [l for l in q.stdout.splitlines() if l.startswith('VIOLATION')]
            cases = [l.strip() for l in q.stdout.splitlines() if l.strip().startswith('case:')]
            res[c] = {'rc': q.returncode, 'violations': len(viol), 'wall_s': round(time.time() - t0, 1), 'cases': cases[:3], 'tail': q.stdout.strip().splitlines()[-2:]}
            print(sid, c, 'rc=%d' % q.returncode, 'violations=%d' % len(viol), flush=True)
    shutil.rmtree(cp, ignore_errors=True)
    os.makedirs(OUT, exist_ok=True)
    f = os.path.join(OUT, sid + '.json')
    old = json.load(open(f)) if os.path.exists(f) else {}
    old.update(res)
    json.dump(old, open(f, 'w'), indent=1)
    return sid, res

if __name__ == '__main__':
    args = sys.argv[1:]
    if args and args[0] == '--collect':
        for f in glob.glob(OUT + '/*.json'):
            sid = os.path.basename(f)[:-5]
            dst = '/verif/seeded/%s/detection.json' % sid
            if os.path.isdir(os.path.dirname(dst)):
                old = json.load(open(dst)) if os.path.exists(dst) else {}
                old.update(json.load(open(f)))
                json.dump(old, open(dst, 'w'), indent=1)
        sys.exit(0)
    checks = None
    if args and args[0] == '--checks':
        checks = ALL if args[1] == 'all' else args[1].split(',')
        args = args[2:]
    # an id may carry its own list of checks: C02-r5m2:C04,C13
    per = {a.split(':')[0]: a.split(':')[1].split(',') for a in args if ':' in a}
    args = [a.split(':')[0] for a in args]
    dirs = [d for d in sorted(glob.glob('/verif/seeded/*/')) if os.path.exists(d + 'patch.diff') and (not args or os.path.basename(d.rstrip('/')) in args)]
    with ThreadPoolExecutor(max_workers=3) as ex:
        list(ex.map(lambda d: job(d, per.get(os.path.basename(d.rstrip('/')), checks)), dirs))
