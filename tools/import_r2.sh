#!/bin/sh
# import_r2.sh <Cxx> : copies the round-2 seeded changes of a sub-agent (/tmp/mut2/Cxx/MUT/m1, m2) to /verif/seeded/Cxx-r2m<i>
P=$1
for i in 1 2; do
  S=/tmp/mut2/$P/MUT/m$i; D=/verif/seeded/$P-r2m$i
  [ -f $S/patch.diff ] || { echo "missing $S"; continue; }
  mkdir -p $D; cp $S/* $D/; echo "imported $D: $(ls $D | tr '\n' ' ')"
done
