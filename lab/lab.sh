#!/bin/sh
# lab.sh up <prefix> <nrouters> [silent-router-indexes...]   build tracer -- r1 -- ... -- rN -- dst in private namespaces
# lab.sh down <prefix> <nrouters>
# Links: hop k (0 = tracer side) uses 10.<100+k>.0.0/24: left end .1, right end .2 ; dst address 10.<100+N>.0.2
set -e
cmd=$1; P=$2; N=$3
ns() { echo "${P}n$1"; }     # n0 = tracer, n1..nN routers, n(N+1) = destination
case "$cmd" in
up)
  shift 3
  i=0
  while [ $i -le $((N+1)) ]; do
    ip netns add $(ns $i); ip -n $(ns $i) link set lo up
    # no ICMP rate limiting of any kind (per-destination, global tokens), generous ARP/neighbour timing
    ip netns exec $(ns $i) sysctl -qw net.ipv4.icmp_ratelimit=0 net.ipv4.icmp_msgs_per_sec=100000 net.ipv4.icmp_msgs_burst=10000 2>/dev/null || true
    i=$((i+1))
  done
  k=0
  while [ $k -le $N ]; do
    a=$(ns $k); b=$(ns $((k+1)))
    ip link add ${P}a$k netns $a type veth peer name ${P}b$k netns $b
    ip -n $a addr add 10.$((100+k)).0.1/24 dev ${P}a$k; ip -n $a link set ${P}a$k up
    ip -n $b addr add 10.$((100+k)).0.2/24 dev ${P}b$k; ip -n $b link set ${P}b$k up
    # IPv6 on the same links: fd00:<100+k>::1 / ::2 (nodad: usable at once)
    ip -n $a -6 addr add fd00:$((100+k))::1/64 dev ${P}a$k nodad
    ip -n $b -6 addr add fd00:$((100+k))::2/64 dev ${P}b$k nodad
    # static neighbour entries: no ARP / neighbour-discovery latency on the first packets
    ma=$(ip netns exec $a cat /sys/class/net/${P}a$k/address); mb=$(ip netns exec $b cat /sys/class/net/${P}b$k/address)
    ip -n $a neigh replace 10.$((100+k)).0.2 lladdr $mb dev ${P}a$k nud permanent
    ip -n $b neigh replace 10.$((100+k)).0.1 lladdr $ma dev ${P}b$k nud permanent
    ip -n $a -6 neigh replace fd00:$((100+k))::2 lladdr $mb dev ${P}a$k nud permanent
    ip -n $b -6 neigh replace fd00:$((100+k))::1 lladdr $ma dev ${P}b$k nud permanent
    k=$((k+1))
  done
  # routing: everything to the right via the right neighbour, everything to the left via the left neighbour
  ip -n $(ns 0) route add default via 10.100.0.2
  ip -n $(ns 0) -6 route add default via fd00:100::2
  k=1
  while [ $k -le $N ]; do
    r=$(ns $k)
    ip netns exec $r sysctl -qw net.ipv4.ip_forward=1 net.ipv4.icmp_ratelimit=0 net.ipv4.conf.all.rp_filter=0 net.ipv4.conf.default.rp_filter=0
    ip netns exec $r sysctl -qw net.ipv6.conf.all.forwarding=1 net.ipv6.icmp.ratelimit=0
    ip -n $r route add default via 10.$((100+k)).0.2
    ip -n $r -6 route add default via fd00:$((100+k))::2
    j=0
    while [ $j -lt $((k-1)) ]; do
      ip -n $r route add 10.$((100+j)).0.0/24 via 10.$((100+k-1)).0.1
      ip -n $r -6 route add fd00:$((100+j))::/64 via fd00:$((100+k-1))::1
      j=$((j+1))
    done
    k=$((k+1))
  done
  ip -n $(ns $((N+1))) route add default via 10.$((100+N)).0.1
  ip -n $(ns $((N+1))) -6 route add default via fd00:$((100+N))::1
  ip netns exec $(ns $((N+1))) sysctl -qw net.ipv6.icmp.ratelimit=0
  ip netns exec $(ns 0) sysctl -qw net.ipv6.icmp.ratelimit=0
  ip netns exec $(ns $((N+1))) sysctl -qw net.ipv4.icmp_ratelimit=0
  ip netns exec $(ns 0) sysctl -qw net.ipv4.icmp_ratelimit=0
  # a black hole behind the last router: 10.<100+N>.0.77 is routed up to rN and dropped there without any answer
  ip -n $(ns $N) route add blackhole 10.$((100+N)).0.77/32
  # an asymmetric return path: a second link tracer -- r1 (10.99.0.1 / 10.99.0.2); r1 sends everything for the tracer's primary
  # address back over it, so answers arrive on another interface than the one the probes left through
  if [ -n "${LAB_ASYM:-}" ] && [ "${LAB_ASYM}" != "0" ]; then
    ip link add ${P}s0 netns $(ns 0) type veth peer name ${P}s1 netns $(ns 1)
    ip -n $(ns 0) addr add 10.99.0.1/24 dev ${P}s0; ip -n $(ns 0) link set ${P}s0 up
    ip -n $(ns 1) addr add 10.99.0.2/24 dev ${P}s1; ip -n $(ns 1) link set ${P}s1 up
    ip netns exec $(ns 0) sysctl -qw net.ipv4.conf.all.rp_filter=0 net.ipv4.conf.default.rp_filter=0 net.ipv4.conf.${P}s0.rp_filter=0 net.ipv4.conf.${P}a0.rp_filter=0
    m0=$(ip netns exec $(ns 0) cat /sys/class/net/${P}s0/address); m1=$(ip netns exec $(ns 1) cat /sys/class/net/${P}s1/address)
    ip -n $(ns 0) neigh replace 10.99.0.2 lladdr $m1 dev ${P}s0 nud permanent
    ip -n $(ns 1) neigh replace 10.99.0.1 lladdr $m0 dev ${P}s1 nud permanent
    ip -n $(ns 1) route add 10.100.0.1/32 via 10.99.0.1 dev ${P}s1
  fi
  # a local output filter on the tracer: probes towards $LAB_OUTDROP are refused by the tracer's own kernel (sendto: EPERM)
  if [ -n "${LAB_OUTDROP:-}" ] && [ "${LAB_OUTDROP}" != "0" ]; then
    ip netns exec $(ns 0) iptables -A OUTPUT -d ${LAB_OUTDROP} -j DROP
  fi
  # a rejecting firewall: router $LAB_REJECT refuses to forward UDP and says so (port unreachable, the default of -j REJECT)
  if [ -n "${LAB_REJECT:-}" ] && [ "${LAB_REJECT}" != "0" ]; then
    ip netns exec $(ns $LAB_REJECT) iptables -A FORWARD -p udp -j REJECT
  fi
  # silent routers: forward, but never originate ICMP errors
  for s in "$@"; do
    ip netns exec $(ns $s) ip6tables -A OUTPUT -p icmpv6 --icmpv6-type time-exceeded -j DROP 2>/dev/null || true
    ip netns exec $(ns $s) iptables -A OUTPUT -p icmp --icmp-type time-exceeded -j DROP 2>/dev/null || \
    ip netns exec $(ns $s) nft -f - <<NFT
table ip vt { chain out { type filter hook output priority 0; icmp type time-exceeded drop; } }
NFT
  done
  ;;
down)
  i=0
  while [ $i -le $((N+1)) ]; do ip netns del $(ns $i) 2>/dev/null || true; i=$((i+1)); done
  ;;
esac
