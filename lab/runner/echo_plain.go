//go:build !verif

package main

func setEchoBase(v uint32) {}
