//go:build verif

package main

import "github.com/DataDog/datadog-traceroute/icmp"

// setEchoBase positions the process-wide ICMP echo-id allocator (hook H4): a long-lived process reaches every position.
// The constructor seam of the tag stays unused here: the sockets are the real ones.
func setEchoBase(v uint32) { icmp.VerifSetEchoIDBase(v) }
