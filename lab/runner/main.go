// runner executes one traceroute.RunTraceroute request on REAL sockets (no verif tag) and prints a flat JSON result,
// including the destination flag that the published JSON omits. It is run inside a network namespace of the lab.
package main

import (
	"context"
	"encoding/json"
	"fmt"
	"math"
	"net/netip"
	"os"
	"time"

	"github.com/DataDog/datadog-traceroute/traceroute"
)

type req struct {
	Hostname  string `json:"hostname"`
	Port      int    `json:"port"`
	Protocol  string `json:"protocol"`
	TCPMethod string `json:"tcp_method"`
	MinTTL    int    `json:"min_ttl"`
	MaxTTL    int    `json:"max_ttl"`
	TimeoutMs int    `json:"timeout_ms"`
	Queries   int    `json:"queries"`
	E2E       int    `json:"e2e"`
	WantV6    bool   `json:"want_v6"`
	Skip      bool   `json:"skip_private"`
	EchoBase  uint32 `json:"echo_base"` // position of the ICMP echo-id allocator before the request (runner built with -tags verif only)
}
type hop struct {
	TTL   int    `json:"ttl"`
	Addr  string `json:"addr"`
	RTTUs int64  `json:"rtt_us"`
	Dest  bool   `json:"dest"`
	Reach bool   `json:"reach"`
}
type run struct {
	Src   string `json:"src"`
	SPort int    `json:"sport"`
	Dst   string `json:"dst"`
	DPort int    `json:"dport"`
	Hops  []hop  `json:"hops"`
}

func main() {
	var r req
	if err := json.Unmarshal([]byte(os.Args[1]), &r); err != nil {
		fmt.Println(`{"ok":false,"err":"bad request"}`)
		os.Exit(2)
	}
	tr := traceroute.NewTraceroute()
	if r.EchoBase > 0 {
		setEchoBase(r.EchoBase)
	}
	// "twice": the same request is served twice by this process; between the two the lab changes something (the driver waits for
	// a line on stdin). Only the second answer is reported: what the process did before must not matter.
	if len(os.Args) > 2 && os.Args[2] == "twice" {
		tr.RunTraceroute(context.Background(), traceroute.TracerouteParams{
			Hostname: r.Hostname, Port: r.Port, Protocol: r.Protocol, TCPMethod: traceroute.TCPMethod(r.TCPMethod), MinTTL: r.MinTTL, MaxTTL: r.MaxTTL,
			Delay: 20, Timeout: time.Duration(r.TimeoutMs) * time.Millisecond, TracerouteQueries: r.Queries, E2eQueries: r.E2E, WantV6: r.WantV6, SkipPrivateHops: r.Skip})
		fmt.Println("FIRST-DONE")
		var line string
		fmt.Scanln(&line)
	}
	res, err := tr.RunTraceroute(context.Background(), traceroute.TracerouteParams{
		Hostname: r.Hostname, Port: r.Port, Protocol: r.Protocol, TCPMethod: traceroute.TCPMethod(r.TCPMethod), MinTTL: r.MinTTL, MaxTTL: r.MaxTTL,
		Delay: 20, Timeout: time.Duration(r.TimeoutMs) * time.Millisecond, TracerouteQueries: r.Queries, E2eQueries: r.E2E, WantV6: r.WantV6, SkipPrivateHops: r.Skip})
	out := map[string]any{"ok": err == nil, "err": "", "runs": []run{}, "rtts_us": []int64{}}
	if err != nil {
		out["err"] = err.Error()
	} else {
		runs := []run{}
		for _, x := range res.Traceroute.Runs {
			ro := run{SPort: int(x.Source.Port), DPort: int(x.Destination.Port), Hops: []hop{}}
			if a, ok := netip.AddrFromSlice(x.Source.IPAddress); ok {
				ro.Src = a.Unmap().String()
			}
			if a, ok := netip.AddrFromSlice(x.Destination.IPAddress); ok {
				ro.Dst = a.Unmap().String()
			}
			for _, h := range x.Hops {
				o := hop{TTL: h.TTL, RTTUs: int64(math.Round(h.RTT * 1000)), Dest: h.IsDest, Reach: h.Reachable}
				if a, ok := netip.AddrFromSlice(h.IPAddress); ok {
					o.Addr = a.Unmap().String()
				}
				ro.Hops = append(ro.Hops, o)
			}
			runs = append(runs, ro)
		}
		out["runs"] = runs
		rt := []int64{}
		for _, v := range res.E2eProbe.RTTs {
			rt = append(rt, int64(math.Round(v*1000)))
		}
		out["rtts_us"] = rt
	}
	b, _ := json.Marshal(out)
	fmt.Println(string(b))
}
