INIT Init
NEXT Next
