---------------------------- MODULE EngineSerial ----------------------------
(***************************************************************************)
(* common.TracerouteSerial (common/traceroute_serial.go) as a timed state  *)
(* machine with a free scripted driver.  One goroutine:                    *)
(*   Top (ctx check, range check) -> Send -> Poll (timeoutCtx check) ->    *)
(*   Got | Deadline -> Poll ... -> Store -> WaitDelay -> Top               *)
(* The per-TTL window is a context deadline (WindowFire), the send delay a *)
(* timer that is NOT context aware, the merge rule keep-first /            *)
(* destination-overrides (after fix 570aa34).                              *)
(***************************************************************************)
EXTENDS Integers, Sequences, FiniteSets, TLC

CONSTANTS MinTTL, MaxTTL, Timeout, Poll, Delay, Scripts, CancelTimes

VARIABLES script, cancelAt, now, pc, i, wend, wfired, dend, rdl, ext, probe,
          inflight, queue, results, sent, acc, out
vars == <<script, cancelAt, now, pc, i, wend, wfired, dend, rdl, ext, probe, inflight, queue, results, sent, acc, out>>

TTLs == MinTTL..MaxTTL
Count == MaxTTL - MinTTL + 1
Null == [k |-> "none"]
NoOut == [set |-> FALSE]
Running == ~out.set

Init ==
    /\ script \in Scripts /\ cancelAt \in CancelTimes
    /\ now = 0 /\ pc = "top" /\ i = MinTTL /\ wend = 0 /\ wfired = FALSE /\ dend = 0 /\ rdl = 0 /\ ext = FALSE /\ probe = Null
    /\ inflight = {} /\ queue = <<>> /\ results = [t \in TTLs |-> Null]
    /\ sent = <<>> /\ acc = <<>> /\ out = NoOut

Clip(res) ==
    LET D == {t \in TTLs : res[t].k = "hop" /\ res[t].dest}
        last == IF D = {} THEN MaxTTL ELSE CHOOSE t \in D : \A u \in D : t <= u
    IN [k \in 1..(last - MinTTL + 1) |-> res[MinTTL + k - 1]]
Merge(res, p) == IF res[p.ttl].k = "none" \/ (~res[p.ttl].dest /\ p.dest) THEN [res EXCEPT ![p.ttl] = p] ELSE res

Ret(err) == IF err # "" THEN [set |-> TRUE, ok |-> FALSE, err |-> err, hops |-> <<>>, t |-> now]
            ELSE IF ext THEN [set |-> TRUE, ok |-> FALSE, err |-> "canceled", hops |-> <<>>, t |-> now]
            ELSE [set |-> TRUE, ok |-> TRUE, err |-> "", hops |-> Clip(results), t |-> now]

SendFails(t) == \E k \in DOMAIN script[t] : script[t][k].err = "sendfail"
SentAt(t) == IF \E k \in DOMAIN sent : sent[k].ttl = t THEN sent[CHOOSE k \in DOMAIN sent : sent[k].ttl = t].t ELSE 0

\* loop head: leave when cancelled or past the last TTL
Top ==
    /\ Running /\ pc = "top"
    /\ IF ext \/ i > MaxTTL THEN out' = Ret("") /\ UNCHANGED <<pc, dend, wend, wfired>>
       ELSE pc' = "send" /\ dend' = now + Delay /\ wend' = now + Timeout /\ wfired' = ext /\ UNCHANGED out
    /\ UNCHANGED <<script, cancelAt, now, i, rdl, ext, probe, inflight, queue, results, sent, acc>>

Send ==
    /\ Running /\ pc = "send"
    /\ IF SendFails(i) THEN out' = Ret("send") /\ UNCHANGED <<pc, sent, inflight, probe>>
       ELSE /\ sent' = Append(sent, [ttl |-> i, t |-> now])
            /\ inflight' = inflight \cup {[id |-> <<i, k>>, at |-> now + script[i][k].delay, r |-> script[i][k]] : k \in DOMAIN script[i]}
            /\ pc' = "poll" /\ probe' = Null /\ UNCHANGED out
    /\ UNCHANGED <<script, cancelAt, now, i, wend, wfired, dend, rdl, ext, queue, results, acc>>

\* for probe == nil { if timeoutCtx.Err() != nil break; ReceiveProbe(poll) ... }
PollStep ==
    /\ Running /\ pc = "poll"
    /\ IF wfired \/ ext THEN pc' = "store" /\ UNCHANGED rdl
                        ELSE pc' = "recv" /\ rdl' = now + Poll
    /\ UNCHANGED <<script, cancelAt, now, i, wend, wfired, dend, ext, probe, inflight, queue, results, sent, acc, out>>

Got ==
    /\ Running /\ pc = "recv" /\ Len(queue) > 0
    /\ LET r == Head(queue) IN
       /\ queue' = Tail(queue)
       /\ CASE r.err \in {"bad", "nopkt"} -> pc' = "poll" /\ UNCHANGED <<probe, acc, out>>
            [] r.err = "fatal" -> out' = Ret("recv") /\ UNCHANGED <<pc, probe, acc>>
            [] r.err = "nil" \/ (r.err = "" /\ (r.ttl < MinTTL \/ r.ttl > MaxTTL)) -> out' = Ret("invalid") /\ UNCHANGED <<pc, probe, acc>>
            [] OTHER -> LET p == [k |-> "hop", ttl |-> r.ttl, dest |-> r.dest, ip |-> r.ip, at |-> now, rtt |-> now - SentAt(r.ttl)] IN
                        probe' = p /\ acc' = Append(acc, p) /\ pc' = "store" /\ UNCHANGED out
    /\ UNCHANGED <<script, cancelAt, now, i, wend, wfired, dend, rdl, ext, inflight, results, sent>>

Deadline ==
    /\ Running /\ pc = "recv" /\ Len(queue) = 0 /\ now = rdl
    /\ pc' = "poll"
    /\ UNCHANGED <<script, cancelAt, now, i, wend, wfired, dend, rdl, ext, probe, inflight, queue, results, sent, acc, out>>

Store ==
    /\ Running /\ pc = "store"
    /\ IF probe.k = "hop"
       THEN /\ results' = Merge(results, probe)
            /\ IF probe.dest THEN out' = [Ret("") EXCEPT !.hops = IF ext THEN <<>> ELSE Clip(Merge(results, probe))] /\ UNCHANGED pc
               ELSE pc' = "wait" /\ UNCHANGED out
       ELSE pc' = "wait" /\ UNCHANGED <<results, out>>
    /\ UNCHANGED <<script, cancelAt, now, i, wend, wfired, dend, rdl, ext, probe, inflight, queue, sent, acc>>

\* <-sendDelay
WaitDelay ==
    /\ Running /\ pc = "wait" /\ now >= dend
    /\ pc' = "top" /\ i' = i + 1
    /\ UNCHANGED <<script, cancelAt, now, wend, wfired, dend, rdl, ext, probe, inflight, queue, results, sent, acc, out>>

Arrive ==
    /\ Running
    /\ \E x \in inflight : x.at = now /\ inflight' = inflight \ {x} /\ queue' = Append(queue, x.r)
    /\ UNCHANGED <<script, cancelAt, now, pc, i, wend, wfired, dend, rdl, ext, probe, results, sent, acc, out>>

WindowFire ==
    /\ Running /\ pc \in {"poll", "recv"} /\ ~wfired /\ now = wend
    /\ wfired' = TRUE
    /\ UNCHANGED <<script, cancelAt, now, pc, i, wend, dend, rdl, ext, probe, inflight, queue, results, sent, acc, out>>

ExtCancel ==
    /\ Running /\ ~ext /\ cancelAt >= 0 /\ now = cancelAt
    /\ ext' = TRUE
    /\ UNCHANGED <<script, cancelAt, now, pc, i, wend, wfired, dend, rdl, probe, inflight, queue, results, sent, acc, out>>

Instant == ENABLED Top \/ ENABLED Send \/ ENABLED PollStep \/ ENABLED Got \/ ENABLED Deadline \/ ENABLED Store
           \/ ENABLED WaitDelay \/ ENABLED Arrive \/ ENABLED WindowFire \/ ENABLED ExtCancel
Wakeups == (IF pc = "recv" THEN {rdl} ELSE {}) \cup (IF pc = "wait" THEN {dend} ELSE {})
           \cup (IF pc \in {"poll", "recv"} /\ ~wfired THEN {wend} ELSE {})
           \cup {x.at : x \in inflight} \cup (IF cancelAt >= 0 /\ ~ext THEN {cancelAt} ELSE {})
Advance ==
    /\ Running /\ ~Instant
    /\ LET W == {w \in Wakeups : w > now} IN W # {} /\ now' = CHOOSE w \in W : \A v \in W : w <= v
    /\ UNCHANGED <<script, cancelAt, pc, i, wend, wfired, dend, rdl, ext, probe, inflight, queue, results, sent, acc, out>>

Next == Top \/ Send \/ PollStep \/ Got \/ Deadline \/ Store \/ WaitDelay \/ Arrive \/ WindowFire \/ ExtCancel \/ Advance
Spec == Init /\ [][Next]_vars

---------------------------------------------------------------------------
Shape(hops) ==
    /\ Len(hops) >= 1 /\ Len(hops) <= Count
    /\ \A k \in 1..(Len(hops) - 1) : ~(hops[k].k = "hop" /\ hops[k].dest)
    /\ (Len(hops) < Count => (hops[Len(hops)].k = "hop" /\ hops[Len(hops)].dest))
    /\ \A k \in DOMAIN hops : hops[k].k = "hop" => hops[k].ttl = MinTTL + k - 1
C03_Shape == (out.set /\ out.ok) => Shape(out.hops)
C03_LowestDest == (out.set /\ out.ok) =>
    LET D == {acc[j].ttl : j \in {j \in DOMAIN acc : acc[j].dest}}
    IN IF D = {} THEN Len(out.hops) = Count ELSE Len(out.hops) = (CHOOSE t \in D : \A u \in D : t <= u) - MinTTL + 1
C06_Order == \A k \in DOMAIN sent : sent[k].ttl = MinTTL + k - 1
C06_Paced == \A k \in 2..Len(sent) : sent[k].t >= sent[k - 1].t + Delay
\* the whole per-TTL timeout is listening time: two consecutive sends are at least one timeout apart unless a reply was ACCEPTED in
\* between - packets that are skipped (bad, no packet) never shorten it (wire level: Props!SerialListens)
C02_Listens == \A k \in 2..Len(sent) : \/ sent[k].t >= sent[k - 1].t + Timeout
                                         \/ \E j \in DOMAIN acc : acc[j].at >= sent[k - 1].t /\ acc[j].at <= sent[k].t
C06_Stop  == \A j \in DOMAIN acc : acc[j].dest => Cardinality({k \in DOMAIN sent : sent[k].t > acc[j].at}) = 0
C05_RTT == \A j \in DOMAIN acc : acc[j].rtt >= 0 /\ acc[j].rtt = acc[j].at - SentAt(acc[j].ttl)
\* keep-first: the reported entry for a TTL is the first accepted reply for it, unless a destination reply replaced it
RECURSIVE Fold(_, _)
Fold(s, res) == IF s = <<>> THEN res ELSE Fold(Tail(s), Merge(res, Head(s)))
C05_First == (out.set /\ out.ok) => out.hops = Clip(Fold(acc, [t \in TTLs |-> Null]))
C08_Bound == Running => now <= Count * (Timeout + Poll + Delay)
C08_Cancel == (out.set /\ cancelAt >= 0 /\ out.t > cancelAt) => (out.t <= cancelAt + Poll + Delay /\ ~out.ok)
=============================================================================
