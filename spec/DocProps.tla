------------------------------ MODULE DocProps ------------------------------
(***************************************************************************)
(* C16 / C17 / C18(a) on REAL documents: the JSON marshalled by the code   *)
(* (numbers in 1/1000 units) is addressed by its published field names and *)
(* compared with the document algebra's result for the same input.         *)
(***************************************************************************)
EXTENDS ResultAlg

\* the published key paths (the wire contract); reverse_dns is omitted when empty
KeyPaths == {".destination", ".destination.hostname", ".destination.port", ".e2e_probe", ".e2e_probe.jitter", ".e2e_probe.packet_loss_percentage",
             ".e2e_probe.packets_received", ".e2e_probe.packets_sent", ".e2e_probe.rtt", ".e2e_probe.rtt.avg", ".e2e_probe.rtt.max", ".e2e_probe.rtt.min",
             ".e2e_probe.rtts", ".protocol", ".source", ".source.public_ip", ".test_run_id", ".traceroute", ".traceroute.hop_count",
             ".traceroute.hop_count.avg", ".traceroute.hop_count.max", ".traceroute.hop_count.min", ".traceroute.runs"}
RunKeyPaths == {".traceroute.runs[].destination", ".traceroute.runs[].destination.ip_address", ".traceroute.runs[].destination.port", ".traceroute.runs[].hops",
                ".traceroute.runs[].hops[].ip_address", ".traceroute.runs[].hops[].reachable", ".traceroute.runs[].hops[].rtt", ".traceroute.runs[].hops[].ttl",
                ".traceroute.runs[].run_id", ".traceroute.runs[].source", ".traceroute.runs[].source.ip_address", ".traceroute.runs[].source.port"}
OptionalKeyPaths == {".traceroute.runs[].hops[].reverse_dns", ".traceroute.runs[].destination.reverse_dns"}

\* the input document in the algebra's shape
InDoc(di) == [runs |-> [r \in DOMAIN di.runs |-> [hops |-> [k \in DOMAIN di.runs[r].hops |->
                          LET h == di.runs[r].hops[k] IN [a |-> [s |-> h.s, b |-> h.b], rtt |-> h.rtt, dest |-> h.dest]]]],
              rtts |-> di.rtts]
SeqOrEmpty(x) == x     \* (the harness maps JSON null - a nil slice - to the empty sequence)
NamesOfHop(h) == IF "reverse_dns" \in DOMAIN h THEN h.reverse_dns ELSE <<>>
Near(real, sum, n) == real * n - sum <= n /\ sum - real * n <= n       \* |real - sum/n| <= 1 unit (rounding)

\* the real document equals the algebra's result
Conforms(di, doc) ==
    LET o == Process(InDoc(di), di.enrich, di.names, di.skip_private)
        runs == SeqOrEmpty(doc.traceroute.runs)
    IN /\ Len(runs) = Len(o.runs)
       /\ \A r \in DOMAIN o.runs :
            /\ Len(runs[r].hops) = Len(o.runs[r].hops)
            /\ \A k \in DOMAIN o.runs[r].hops :
                 LET a == runs[r].hops[k]  b == o.runs[r].hops[k] IN
                 /\ a.ttl = b.ttl + di.first_ttl - 1 /\ a.ip_address = b.ip_address /\ a.rtt = b.rtt /\ a.reachable = b.reachable
                 /\ NamesOfHop(a) = b.names
       /\ (Len(o.runs) > 0 => /\ doc.traceroute.hop_count.min = o.hc.min /\ doc.traceroute.hop_count.max = o.hc.max
                              /\ Near(doc.traceroute.hop_count.avg, o.hc.sum * 1000, o.hc.n))
       /\ doc.e2e_probe.packets_sent = o.sent /\ doc.e2e_probe.packets_received = o.recv
       /\ (o.sent > 0 => Near(doc.e2e_probe.packet_loss_percentage, (o.sent - o.recv) * 1000, o.sent))
       /\ doc.e2e_probe.rtt.min = o.rmin /\ doc.e2e_probe.rtt.max = o.rmax
       /\ Near(doc.e2e_probe.rtt.avg, o.rsum, o.rn)
       /\ Near(doc.e2e_probe.jitter, o.jsum, o.jn)

\* C16 relations stated directly on the real JSON
C16_json(out) ==
    LET doc == out.doc  runs == SeqOrEmpty(doc.traceroute.runs)  e == doc.e2e_probe  hc == doc.traceroute.hop_count
        rt == SeqOrEmpty(e.rtts)
        lens == {Len(runs[r].hops) : r \in DOMAIN runs}
    IN /\ out.panic = ""
       /\ \A r \in DOMAIN runs : \A k \in DOMAIN runs[r].hops : runs[r].hops[k].reachable <=> (runs[r].hops[k].ip_address # "")
       /\ Len(runs) > 0 => /\ hc.min * 1000 <= hc.avg + 1 /\ hc.avg <= hc.max * 1000 + 1
                           /\ hc.min >= 1 /\ \E x \in lens : hc.min <= x
                           /\ \E x \in lens : hc.max <= x
       /\ e.packets_sent = Len(rt)
       /\ e.packets_received = Cardinality({i \in DOMAIN rt : rt[i] > 0})
       /\ (Len(rt) > 0 => Near(e.packet_loss_percentage, (e.packets_sent - e.packets_received) * 1000, e.packets_sent))
       /\ (e.packets_received > 0 => e.rtt.min <= e.rtt.avg + 1 /\ e.rtt.avg <= e.rtt.max + 1 /\ e.rtt.min > 0)
       /\ 0 <= e.jitter /\ e.jitter <= e.rtt.max - e.rtt.min + 1
       \* ... the same relations in millionths of a millisecond (rounding slack: one unit)
       /\ out.fine.jitter <= out.fine.max - out.fine.min + 1
       /\ (e.packets_received > 0 => out.fine.min <= out.fine.avg + 1 /\ out.fine.avg <= out.fine.max + 1)
       \* identifiers: present, pairwise distinct
       /\ \A i, j \in DOMAIN out.ids : (i # j => out.ids[i] # out.ids[j]) /\ out.ids[i] # ""
       \* JSON: published field names, decodes back to the same values
       /\ LET ks == {out.keys[i] : i \in DOMAIN out.keys} IN
            /\ KeyPaths \subseteq ks
            /\ (Len(runs) > 0 => RunKeyPaths \subseteq ks)
            /\ ks \subseteq KeyPaths \cup RunKeyPaths \cup OptionalKeyPaths
       /\ out.rt_equal /\ out.doc2 = [out.doc EXCEPT !.test_run_id = out.doc2.test_run_id] /\ out.doc2.test_run_id = out.doc.test_run_id

\* C17 on the real JSON: nothing of a private hop survives, everything else untouched, positions kept
C17_json(di, out) ==
    LET runs == SeqOrEmpty(out.doc.traceroute.runs) IN
    di.skip_private =>
      /\ Len(runs) = Len(di.runs)
      /\ \A r \in DOMAIN di.runs :
           /\ Len(runs[r].hops) = Len(di.runs[r].hops)
           /\ \A k \in DOMAIN di.runs[r].hops :
                LET i == di.runs[r].hops[k]  h == runs[r].hops[k] IN
                /\ h.ttl = di.first_ttl + k - 1
                /\ IsPrivate(i.b) => (h.ip_address = "" /\ h.rtt = 0 /\ ~h.reachable /\ ~("reverse_dns" \in DOMAIN h))
                /\ ~IsPrivate(i.b) => (h.ip_address = i.s /\ h.rtt = i.rtt * 1000 /\ (h.reachable <=> i.s # "")
                                       /\ NamesOfHop(h) = (IF di.enrich /\ i.s \in DOMAIN di.names THEN di.names[i.s] ELSE <<>>))

\* C18(a): names on a hop / destination are exactly the resolver's answer for that same address; failures leave them empty
C18_json(di, out) ==
    LET runs == SeqOrEmpty(out.doc.traceroute.runs) IN
    di.enrich =>
      /\ out.panic = ""
      /\ \A r \in DOMAIN di.runs :
           /\ (IF "reverse_dns" \in DOMAIN runs[r].destination THEN runs[r].destination.reverse_dns ELSE <<>>)
                 = (IF di.runs[r].dsts \in DOMAIN di.names THEN di.names[di.runs[r].dsts] ELSE <<>>)
           /\ \A k \in DOMAIN di.runs[r].hops :
                LET i == di.runs[r].hops[k]  h == runs[r].hops[k] IN
                \* (a redacted hop reports no address: no name the resolver returned belongs to it)
                IF di.skip_private /\ IsPrivate(i.b) THEN NamesOfHop(h) = <<>>
                ELSE (/\ NamesOfHop(h) = (IF i.s \in DOMAIN di.names THEN di.names[i.s] ELSE <<>>)
                      /\ h.ip_address = i.s /\ h.rtt = i.rtt * 1000)

\* C18(b) after the pipeline: a success stored during enrichment is returned until expiry without asking the resolver again
C18_reprobe(di, got) ==
    \A i \in DOMAIN got : (got[i].op = "reprobe" /\ \E x \in DOMAIN di.hit : di.hit[x] = got[i].key) =>
        (~got[i].invoked /\ got[i].ok /\ got[i].val = di.names[got[i].key][1])

\* C16: identifiers are fresh - pairwise distinct over every document finished in the process, also when documents are finished concurrently
C16_ids(got) == \A i \in DOMAIN got : got[i].op = "ids" =>
                   (Cardinality({got[i].ids[k] : k \in DOMAIN got[i].ids}) = Len(got[i].ids) /\ \A k \in DOMAIN got[i].ids : Len(got[i].ids[k]) = 22)

\* C08: the post-processing stage is bounded by one lookup timeout whatever the resolvers do
C08_doc(di, out) == out.panic = "" /\ out.t <= di.bound_us
=============================================================================
