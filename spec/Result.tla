------------------------------- MODULE Result -------------------------------
(* Small-scope exhaustive design check of the document algebra (ResultAlg.tla): C16 / C17 relations for all documents *)
(* in scope, and permutation invariance of the order-insensitive statistics.                                           *)
EXTENDS ResultAlg

\* ---- small-scope exhaustive design check -----------------------------------
SmallAddrs == {NoAddr, Addr("10.0.0.0", <<10, 0, 0, 0>>), Addr("8.8.8.8", <<8, 8, 8, 8>>), Addr("fd00::1", <<253>> \o Z(14) \o <<1>>),
               Addr("10.0.0.1", Z(10) \o <<255, 255, 10, 0, 0, 1>>)}
SmallHops == [a : SmallAddrs, rtt : {7}, dest : {FALSE}]
HopSeqs == UNION {[1..n -> SmallHops] : n \in 1..3}
RttSeqs == UNION {[1..n -> {0, 1, 2, 7}] : n \in 0..4}
VARIABLES d, o, red
\* the two halves of the document are independent in the pipeline: vary one at a time
FixedRuns == <<[hops |-> <<[a |-> Addr("8.8.8.8", <<8, 8, 8, 8>>), rtt |-> 7, dest |-> FALSE]>>]>>
Init == /\ \/ d \in [runs : UNION {[1..n -> [hops : HopSeqs]] : n \in 0..2}, rtts : {<<1, 0, 7>>}]
           \/ d \in [runs : {FixedRuns, <<>>}, rtts : RttSeqs]
        /\ red \in BOOLEAN /\ o = <<>>
Compute == o = <<>> /\ o' = Process(d, FALSE, <<>>, red) /\ UNCHANGED <<d, red>>
Spec == Init /\ [][Compute]_<<d, o, red>>
C16_Design == o # <<>> => C16_Relations(d, o)
C17_Design == (o # <<>> /\ red) => C17_Relations(d, o)
\* order-insensitive statistics are invariant under permutations of the samples
PermInv == o # <<>> =>
    \A p \in {q \in [DOMAIN d.rtts -> DOMAIN d.rtts] : \A i, j \in DOMAIN d.rtts : i # j => q[i] # q[j]} :
        LET o2 == Process([d EXCEPT !.rtts = [i \in DOMAIN d.rtts |-> d.rtts[p[i]]]], FALSE, <<>>, red)
        IN o2.sent = o.sent /\ o2.recv = o.recv /\ o2.rmin = o.rmin /\ o2.rmax = o.rmax /\ o2.rsum = o.rsum
=============================================================================
