SPECIFICATION Spec
CONSTANT ValidateTTL = TRUE
INVARIANT C19_Design
CHECK_DEADLOCK FALSE
