SPECIFICATION Spec
CONSTANTS
  Keys = {"a", "b"}
  TTL = 3600000
  MaxOps = 4
INVARIANTS NeverStoresFailure HitNeedsStore MissAfterExpiry EmitOps
CHECK_DEADLOCK FALSE
