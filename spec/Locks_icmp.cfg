SPECIFICATION Spec
CONSTANTS
  GuardSack = FALSE
  Driver = "icmp"
INVARIANT C14_NoRace
CHECK_DEADLOCK FALSE
