------------------------------- MODULE Props -------------------------------
(***************************************************************************)
(* The listed properties as formulas over the OBSERVABLE HISTORY of a run: *)
(* the parameters, the probes put on the wire (decoded by the harness's    *)
(* own codec), the packets that arrived and were delivered to the capture  *)
(* handles, the handle operations, and the value returned by the real      *)
(* entry point.  The same formulas are (a) invariants of the design specs  *)
(* (Engine*.tla, Matcher.tla ... which maintain the same history record)   *)
(* and (b) evaluated by TLC on every state of traces recorded from the     *)
(* real code (TraceObs.tla).                                               *)
(*                                                                         *)
(* A history H is a record:                                                *)
(*   par   parameters (variant, strict, min, max, timeout_us, delay_us,    *)
(*         poll_us, target, port, cancel_us ...)                           *)
(*   sent  sequence of [n, t, ttl, run, flow, p]   p = decoded probe view  *)
(*   arr   sequence (index = packet id) of [n, t, tag, for_ttl, d]         *)
(*   del   sequence of [n, t, pkt, h, run]                                 *)
(*   hlog  sequence of handle events [ev, h, kind, run, n]                 *)
(*   flt   sequence of injected faults [op, k, class, run, n]              *)
(*   cancel  -1 or the time of the external cancellation                   *)
(*   out   the Return event, out.set = FALSE before it                     *)
(* 32-bit wire values are <<hi16, lo16>> pairs (TLC integers are 32 bit).  *)
(***************************************************************************)
EXTENDS Integers, Sequences, FiniteSets, TLC

Add32(x, k) == LET v == x[2] + k
               IN IF v >= 65536 THEN <<(x[1] + 1) % 65536, v - 65536>> ELSE <<x[1], v>>

HasFlag(d, b) == (d.flags \div b) % 2 = 1
FIN == 1  SYN == 2  RST == 4  PSH == 8  ACK == 16

IsICMPv(v) == v \in {"icmp4", "icmp6"}
IsUDPv(v)  == v \in {"udp4", "udp6"}
IsSYNv(v)  == v \in {"tcp", "tcp_paris"}
IsSACKv(v) == v = "sack"
IsSerial(v) == IsSYNv(v) \/ v = "engine_serial"
IsEnginev(v) == v \in {"engine_parallel", "engine_serial"}

Range(s) == {s[i] : i \in DOMAIN s}
Min(S) == CHOOSE x \in S : \A y \in S : x <= y
Max(S) == CHOOSE x \in S : \A y \in S : x >= y
Abs(x) == IF x < 0 THEN -x ELSE x

(***************************************************************************)
(* What it means for a delivered packet d to ANSWER probe p (property      *)
(* level: exactly the fields the statement of C01 lists - quoted           *)
(* addresses, ports, per-probe identifier at full width; quoted source     *)
(* only with strict checking; ICMP always checks the quoted source).       *)
(***************************************************************************)
IsErr(d) == d.kind \in {"te", "du"}

QuotesICMP(p, d) == d.q /\ d.q_src = p.src /\ d.q_dst = p.dst /\ d.q_eid = p.eid /\ d.q_eseq = p.eseq
QuoteFlow(strict, p, d) == d.q /\ d.q_dst = p.dst /\ d.q_dport = p.dport
                           /\ (strict => d.q_src = p.src /\ d.q_sport = p.sport)
QuotesUDP(strict, p, d) == QuoteFlow(strict, p, d)
                           /\ IF p.v = 4 THEN d.q_ipid = p.ipid ELSE d.q_ulen = p.ulen
QuotesTCP(strict, p, d) == QuoteFlow(strict, p, d) /\ d.q_ipid = p.ipid /\ d.q_seq = p.seq
QuotesSACK(strict, p, d) == QuoteFlow(strict, p, d) /\ d.q_seq = p.seq

ReverseTuple(p, d) == d.src = p.dst /\ d.dst = p.src /\ d.sport = p.dport /\ d.dport = p.sport

\* (the outer destination of an echo reply is not demanded: the statement lists target and identifier)
DirectICMP(p, d) == d.kind = "echo_rep" /\ d.src = p.dst /\ d.eid = p.eid /\ d.eseq = p.eseq
DirectSYN(p, d)  == d.kind = "tcp" /\ ReverseTuple(p, d)
                    /\ ((HasFlag(d, SYN) /\ HasFlag(d, ACK)) \/ HasFlag(d, RST))
                    /\ (HasFlag(d, ACK) => d.ack = Add32(p.seq, 1))
DirectSACK(p, d) == d.kind = "tcp" /\ ReverseTuple(p, d)
                    /\ ~HasFlag(d, SYN) /\ ~HasFlag(d, FIN) /\ ~HasFlag(d, RST)
                    /\ \E i \in DOMAIN d.sack : d.sack[i] = p.seq

Quotes(v, strict, p, d) ==
    IsErr(d) /\ CASE IsICMPv(v) -> QuotesICMP(p, d)
                  [] IsUDPv(v)  -> QuotesUDP(strict, p, d)
                  [] IsSYNv(v)  -> QuotesTCP(strict, p, d)
                  [] IsSACKv(v) -> QuotesSACK(strict, p, d)
                  [] OTHER -> FALSE
Direct(v, p, d) ==
    CASE IsICMPv(v) -> DirectICMP(p, d)
      [] IsSYNv(v)  -> DirectSYN(p, d)
      [] IsSACKv(v) -> DirectSACK(p, d)
      [] OTHER -> FALSE
Answers(v, strict, p, d) == Quotes(v, strict, p, d) \/ Direct(v, p, d)
\* The caveat of C01: a direct TCP reply without a per-probe identifier may be credited to the most recently sent probe.
\* That is every SYN-ACK/RST in default mode (one sequence number for the whole run) and a bare RST (no ack number) in
\* Paris mode; a Paris-mode SYN-ACK / RST-ACK carries the probe's own sequence number + 1 and identifies its probe.
Caveat(v, d) == IsSYNv(v) /\ (v = "tcp" \/ ~HasFlag(d, ACK))

(***************************************************************************)
(* Proof-of-arrival forms (C04).  target = the probe's destination.        *)
(***************************************************************************)
DestForm(v, p, d) ==
    CASE IsICMPv(v) -> DirectICMP(p, d)
      [] IsUDPv(v)  -> IsErr(d) /\ d.src = p.dst
      [] IsSYNv(v)  -> DirectSYN(p, d)
      [] IsSACKv(v) -> DirectSACK(p, d) \/ (d.kind = "te" /\ d.src = p.dst)
      [] OTHER -> FALSE

(***************************************************************************)
(* Catalogue of reply forms real devices produce (C02): what the code is   *)
(* REQUIRED to recognise.  Narrower than Answers.                          *)
(***************************************************************************)
InCatalogue(v, d) ==
    /\ d.csum_ok
    /\ CASE IsICMPv(v) -> (d.kind = "te" /\ d.icode = 0) \/ d.kind = "echo_rep"
         [] IsUDPv(v)  -> (d.kind = "te" /\ d.icode = 0) \/ d.kind = "du"
         [] IsSYNv(v)  -> (d.kind = "te" /\ d.icode = 0) \/ d.kind = "tcp"
         [] IsSACKv(v) -> (d.kind = "te" /\ d.icode = 0) \/ d.kind = "tcp"
         [] OTHER -> FALSE

---------------------------------------------------------------------------
(* helpers over a history *)
V(H) == H.par.variant
SentOfRun(H, r) == SelectSeq(H.sent, LAMBDA s : s.run = r)
DelOfRun(H, r)  == SelectSeq(H.del, LAMBDA x : x.run = r)
PktOf(H, x) == H.arr[x.pkt].d

\* the deliveries (indices into del) that answer send index j, delivered after the send
AnswersOf(H, snt, dl, j) ==
    {i \in DOMAIN dl : dl[i].n > snt[j].n /\ Answers(V(H), H.par.strict, snt[j].p, PktOf(H, dl[i]))}

ProbeCount(H) == H.par.max - H.par.min + 1

(***************************************************************************)
(* The engine's listening deadline as the property states it.              *)
(***************************************************************************)
EngineStart(snt) == snt[1].t
ParDeadline(H, snt) == EngineStart(snt) + H.par.timeout_us + H.par.delay_us * ProbeCount(H)

\* is delivery x inside the listening window of send j (at least one poll before the end)?
InWindow(H, snt, dl, j, i) ==
    IF IsSerial(V(H))
    \* serial: the engine polls as long as the per-TTL timeout has not expired - the whole timeout is listening time, whatever its
    \* relation to the poll interval (strictly before the expiry: a tie with the timer may go either way)
    THEN /\ dl[i].t < snt[j].t + H.par.timeout_us
         /\ (j < Len(snt) => dl[i].n < snt[j + 1].n)
    ELSE dl[i].t <= ParDeadline(H, snt) - H.par.poll_us

\* serial restriction of C02: no reply arrives after its own window
\* (a direct TCP reply without a per-probe identifier "answers" every probe of the run: it is late only for the probes after
\* which it was delivered - without this exception every default-mode SYN run with a destination reply would be exempt)
NoLateReply(H, snt, dl) ==
    \A j \in DOMAIN snt : \A i \in AnswersOf(H, snt, dl, j) :
        (j < Len(snt) /\ ~(PktOf(H, dl[i]).kind = "tcp" /\ Caveat(V(H), PktOf(H, dl[i])))) => dl[i].n < snt[j + 1].n

\* serial engine: the next probe leaves only after the whole per-TTL timeout, unless a packet that answers a probe of the run (the
\* current one, or an earlier one whose reply is late) was delivered in between - unrelated traffic never shortens the listening time
SerialListens(H, snt, dl) ==
    (IsSerial(V(H)) /\ Len(H.flt) = 0) =>
    \A j \in 1..(Len(snt) - 1) :
        \/ snt[j + 1].t >= snt[j].t + H.par.timeout_us - (IF H.par.realclock THEN 5000 ELSE 0)
        \/ \E i \in DOMAIN dl : /\ dl[i].n > snt[j].n /\ dl[i].n < snt[j + 1].n
                                 /\ \E jj \in 1..j : \/ Answers(V(H), H.par.strict, snt[jj].p, PktOf(H, dl[i]))
                                                      \/ (Caveat(V(H), PktOf(H, dl[i])) /\ Direct(V(H), snt[jj].p, PktOf(H, dl[i])))

HopAt(hops, ttl) == IF \E k \in DOMAIN hops : hops[k].ttl = ttl
                    THEN hops[CHOOSE k \in DOMAIN hops : hops[k].ttl = ttl]
                    ELSE [ttl |-> ttl, addr |-> "none", rtt_us |-> 0, dest |-> FALSE]

(***************************************************************************)
(* C01  Attribution soundness                                              *)
(***************************************************************************)
BackedBy(H, snt, dl, h) ==
    \E i \in DOMAIN dl : \E j \in DOMAIN snt :
        LET d == PktOf(H, dl[i]) IN
        /\ d.src = h.addr
        /\ snt[j].ttl = h.ttl
        /\ snt[j].n < dl[i].n
        /\ \/ Quotes(V(H), H.par.strict, snt[j].p, d)
           \/ /\ ~IsSYNv(V(H))
              /\ Direct(V(H), snt[j].p, d)
           \/ /\ IsSYNv(V(H)) /\ ~Caveat(V(H), d)
              /\ Direct(V(H), snt[j].p, d)
           \/ /\ Caveat(V(H), d)         \* caveat: credited to the most recently sent probe
              /\ \E k \in 1..j : Direct(V(H), snt[k].p, d)
              /\ \A j2 \in DOMAIN snt : snt[j2].n < dl[i].n => j2 <= j

C01_run(H, snt, dl, hops) == \A k \in DOMAIN hops : hops[k].addr # "" => BackedBy(H, snt, dl, hops[k])

(***************************************************************************)
(* C02  Recognition completeness                                           *)
(***************************************************************************)
\* lowest TTL for which a proof-of-arrival reply was delivered in its window
DestTTLs(H, snt, dl) ==
    {snt[j].ttl : j \in {j \in DOMAIN snt : \E i \in AnswersOf(H, snt, dl, j) :
                              /\ DestForm(V(H), snt[j].p, PktOf(H, dl[i])) /\ InCatalogue(V(H), PktOf(H, dl[i]))
                              /\ InWindow(H, snt, dl, j, i)}}

C02_run(H, snt, dl, hops) ==
    SerialListens(H, snt, dl) /\
    ((IsSerial(V(H)) => NoLateReply(H, snt, dl)) =>
    \A j \in DOMAIN snt :
        LET A == {i \in AnswersOf(H, snt, dl, j) :
                     InCatalogue(V(H), PktOf(H, dl[i])) /\ InWindow(H, snt, dl, j, i)}
            D == DestTTLs(H, snt, dl)
        IN (A # {} /\ (D = {} \/ snt[j].ttl <= Min(D))) =>
              \E i \in A : HopAt(hops, snt[j].ttl).addr = PktOf(H, dl[i]).src)

(***************************************************************************)
(* C03  Path shape                                                         *)
(***************************************************************************)
Shape(par, hops) ==
    /\ Len(hops) >= 1
    /\ Len(hops) <= par.max - par.min + 1
    /\ \A k \in DOMAIN hops : hops[k].ttl = par.min + k - 1
    /\ \A k \in 1..(Len(hops) - 1) : ~hops[k].dest
    /\ (Len(hops) < par.max - par.min + 1 => hops[Len(hops)].dest)
    /\ \A k \in DOMAIN hops : hops[k].addr = "" => (~hops[k].dest /\ hops[k].rtt_us = 0)

\* ends at the LOWEST ttl the destination answered (wire level: a proof-of-arrival reply delivered in window)
\* ... and it ends EARLY only at a TTL the destination really answered: some delivered proof-of-arrival reply from the target for the
\* probe of the last entry (or, for a direct TCP reply without per-probe identifier, for an earlier probe of the run)
DestAnswered(H, snt, dl, t) ==
    \E j \in DOMAIN snt : snt[j].ttl = t /\ \E i \in DOMAIN dl :
        /\ dl[i].n > snt[j].n
        /\ \/ (Answers(V(H), H.par.strict, snt[j].p, PktOf(H, dl[i])) /\ DestForm(V(H), snt[j].p, PktOf(H, dl[i])))
           \/ (Caveat(V(H), PktOf(H, dl[i])) /\ \E kk \in 1..j : Direct(V(H), snt[kk].p, PktOf(H, dl[i])) /\ DestForm(V(H), snt[kk].p, PktOf(H, dl[i])))
C03_run(H, snt, dl, hops) ==
    /\ Shape(H.par, hops)
    /\ SerialListens(H, snt, dl)
    /\ LET D == DestTTLs(H, snt, dl)
       IN ((IsSerial(V(H)) => NoLateReply(H, snt, dl)) /\ D # {}) => Len(hops) <= Min(D) - H.par.min + 1
    /\ Len(hops) < H.par.max - H.par.min + 1 => DestAnswered(H, snt, dl, H.par.min + Len(hops) - 1)

(***************************************************************************)
(* C04  Destination marking                                                *)
(***************************************************************************)
C04_run(H, snt, dl, hops) ==
    \A k \in DOMAIN hops :
        LET h == hops[k]
            js == {j \in DOMAIN snt : snt[j].ttl = h.ttl}
            \* every delivered packet that could have produced this hop
            C == {<<i, j>> \in (DOMAIN dl) \X js :
                     /\ dl[i].n > snt[j].n /\ PktOf(H, dl[i]).src = h.addr
                     /\ \/ Answers(V(H), H.par.strict, snt[j].p, PktOf(H, dl[i]))
                        \/ Caveat(V(H), PktOf(H, dl[i])) /\ \E kk \in 1..j : Direct(V(H), snt[kk].p, PktOf(H, dl[i]))}
            IsD(c) == \E kk \in 1..c[2] : DestForm(V(H), snt[kk].p, PktOf(H, dl[c[1]])) /\ PktOf(H, dl[c[1]]).src = snt[kk].p.dst
        IN h.addr # "" =>
             /\ (h.dest => \E c \in C : IsD(c))
             /\ (~h.dest => (C = {} \/ \E c \in C : ~IsD(c)))

(***************************************************************************)
(* C07 at the wire level: of SEVERAL replies to one probe the earliest is  *)
(* kept, except that a proof-of-arrival reply replaces one that is not.    *)
(* Judged only for probes all of whose replies are in the catalogue and    *)
(* well inside the listening window (so that every one of them was         *)
(* accepted, whatever the schedule).                                       *)
(***************************************************************************)
C07_run(H, snt, dl, hops) ==
    \A k \in DOMAIN hops : \A j \in DOMAIN snt : snt[j].ttl = hops[k].ttl =>
        LET A == AnswersOf(H, snt, dl, j)
            sure == \A i \in A : InCatalogue(V(H), PktOf(H, dl[i])) /\ InWindow(H, snt, dl, j, i)
            AD == {i \in A : DestForm(V(H), snt[j].p, PktOf(H, dl[i]))}
            pick(S) == CHOOSE i \in S : \A i2 \in S : dl[i].n <= dl[i2].n
            w == IF AD # {} THEN pick(AD) ELSE pick(A)
        IN (A # {} /\ sure) =>
              /\ hops[k].addr = PktOf(H, dl[w]).src
              /\ hops[k].dest = (AD # {})
              /\ Abs(hops[k].rtt_us - (dl[w].t - snt[j].t)) <= H.par.poll_us

(***************************************************************************)
(* C05  RTT fidelity                                                       *)
(***************************************************************************)
C05_run(H, snt, dl, hops) ==
    \A k \in DOMAIN hops :
        LET h == hops[k] IN
        /\ h.rtt_us >= 0
        /\ h.addr # "" =>
             \E j \in DOMAIN snt : snt[j].ttl = h.ttl /\
               LET A == {i \in DOMAIN dl : dl[i].n > snt[j].n /\ PktOf(H, dl[i]).src = h.addr
                            /\ (((PktOf(H, dl[i]).kind # "tcp" \/ ~Caveat(V(H), PktOf(H, dl[i]))) /\ Answers(V(H), H.par.strict, snt[j].p, PktOf(H, dl[i])))
                                \* (caveat of C01: a direct TCP reply without per-probe identifier is credited to the probe sent LAST before it)
                                \/ (PktOf(H, dl[i]).kind = "tcp" /\ Caveat(V(H), PktOf(H, dl[i])) /\ (\E kk \in 1..j : Direct(V(H), snt[kk].p, PktOf(H, dl[i])))
                                    /\ \A j2 \in DOMAIN snt : snt[j2].n < dl[i].n => j2 <= j))}
                   \* the first accepted reply: the earliest one, or the earliest destination-form one when it
                   \* replaced a non-destination reply
                   first == CHOOSE i \in A : \A i2 \in A : dl[i].n <= dl[i2].n
                   AD == {i \in A : h.dest /\ DestForm(V(H), snt[j].p, PktOf(H, dl[i]))}
                   firstD == CHOOSE i \in AD : \A i2 \in AD : dl[i].n <= dl[i2].n
                   Ok(i) == Abs(h.rtt_us - (dl[i].t - snt[j].t)) <= H.par.poll_us
               \* (a reported RTT needs a reply of that probe to be measured against at all)
               IN A # {} /\ (Ok(first) \/ (AD # {} /\ Ok(firstD)))

\* the strict form used when duplicates are further apart than one poll interval (serial engine included)
C05_first(H, snt, dl, hops) == C05_run(H, snt, dl, hops)

(***************************************************************************)
(* C06  Probe emission                                                     *)
(***************************************************************************)
ProbeId(v, p) ==
    CASE IsICMPv(v) -> <<p.eid, p.eseq>>
      [] v = "udp4" -> <<p.ipid>>
      [] v = "udp6" -> <<p.ulen>>
      [] IsSYNv(v)  -> <<p.ipid, p.seq>>
      [] IsSACKv(v) -> <<p.seq>>
      [] OTHER -> <<>>
SameFlow(v, a, b) ==
    /\ a.src = b.src /\ a.dst = b.dst /\ a.v = b.v /\ a.proto = b.proto
    /\ (~IsICMPv(v) => a.sport = b.sport /\ a.dport = b.dport)
    /\ (IsICMPv(v) => a.eid = b.eid)
KindOK(v, p) ==
    CASE IsICMPv(v) -> p.kind = "echo_req"
      [] IsUDPv(v)  -> p.kind = "udp"
      [] IsSYNv(v)  -> p.kind = "tcp" /\ p.flags = SYN
      [] IsSACKv(v) -> p.kind = "tcp" /\ HasFlag(p, ACK) /\ ~HasFlag(p, SYN)
      [] OTHER -> TRUE

C06_Sends(H, snt) ==
    /\ \A j \in DOMAIN snt : snt[j].ttl = H.par.min + j - 1            \* increasing from the first TTL, one each
    /\ Len(snt) <= ProbeCount(H)
    /\ \A j \in 2..Len(snt) : snt[j].t >= snt[j - 1].t + H.par.delay_us   \* paced
    /\ \A j \in DOMAIN snt :
         /\ snt[j].p.len_ok /\ snt[j].p.csum_ok /\ KindOK(V(H), snt[j].p)
         /\ snt[j].p.dst = H.par.target
         /\ (~IsICMPv(V(H)) => snt[j].p.dport = H.par.port)
         /\ SameFlow(V(H), snt[j].p, snt[1].p)
    /\ \A a, b \in DOMAIN snt : a # b => ProbeId(V(H), snt[a].p) # ProbeId(V(H), snt[b].p)

\* none after it has seen the destination answer (one already in flight excepted)
C06_Stop(H, snt, dl) ==
    LET DD == {i \in DOMAIN dl : \E j \in DOMAIN snt :
                  /\ snt[j].n < dl[i].n
                  /\ DestForm(V(H), snt[j].p, PktOf(H, dl[i]))
                  /\ Answers(V(H), H.par.strict, snt[j].p, PktOf(H, dl[i]))
                  /\ InCatalogue(V(H), PktOf(H, dl[i]))}
    IN DD # {} => LET n0 == Min({dl[i].n : i \in DD})
                  IN Cardinality({j \in DOMAIN snt : snt[j].n > n0}) <= 1

C06_Endpoints(H, snt, out) ==
    (out.ok /\ Len(snt) >= 1) =>
        /\ out.src = snt[1].p.src /\ out.dst = snt[1].p.dst
        /\ (~IsICMPv(V(H)) => out.sport = snt[1].p.sport /\ out.dport = snt[1].p.dport)

(***************************************************************************)
(* C08  Bounded termination and prompt cancellation                        *)
(***************************************************************************)
HandshakeUs == 500000
Bound(par) ==
    CASE IsSerial(par.variant) -> (par.max - par.min + 1) * (par.timeout_us + par.poll_us + par.delay_us)
      [] IsSACKv(par.variant)  -> par.timeout_us + HandshakeUs + par.timeout_us
                                   + par.delay_us * (par.max - par.min + 1) + par.poll_us
      [] OTHER -> par.timeout_us + par.delay_us * (par.max - par.min + 1) + par.poll_us

C08_run(H) ==
    /\ ~H.out.hung               \* (the call was still stuck after the real-clock limit, or in a busy loop that only the harness ended)
    /\ H.out.t <= Bound(H.par)
    /\ (H.cancel >= 0 /\ H.cancel < H.out.t) =>
          /\ H.out.t <= H.cancel + H.par.poll_us + H.par.delay_us
          /\ ~H.out.ok /\ H.out.err.canceled

(***************************************************************************)
(* C10  Failure atomicity, causes, handles                                 *)
(***************************************************************************)
FatalFaults(H) == {i \in DOMAIN H.flt : H.flt[i].class \in {"fatal", "enobufs", "eperm"}
                       /\ H.flt[i].op \in {"newsink", "newsource", "setfilter", "setdeadline", "read", "write"}}
ZeroFaults(H) == {i \in DOMAIN H.flt : H.flt[i].class = "zero"}

C10_run(H) ==
    /\ (FatalFaults(H) # {} \/ ZeroFaults(H) # {}) => (~H.out.ok /\ ~H.out.has_result)
    /\ \A i \in FatalFaults(H) : \E c \in DOMAIN H.out.err.causes : H.out.err.causes[c] = H.flt[i].op
    /\ (~H.out.ok) => ~H.out.has_result                       \* never a partial path together with an error
    /\ H.out.opened = H.out.closed_once                       \* every opened handle closed exactly once
    /\ ~\E i \in DOMAIN H.hlog : H.hlog[i].ev = "UseAfterClose"
    /\ H.out.goroutines = 0
    /\ H.out.panic = ""


(***************************************************************************)
(* Engine-level formulas (scripted-driver traces: Send / Got / Return).    *)
(* got = every value ReceiveProbe returned, in order; accepted = the ones  *)
(* returned without error and inside the probed range.                     *)
(***************************************************************************)
EngAccepted(H) == SelectSeq(H.got, LAMBDA g : g.err = "" /\ g.ttl >= H.par.min /\ g.ttl <= H.par.max)
EngFatal(H) == \E i \in DOMAIN H.got : H.got[i].err \in {"fatal", "nil"} \/ (H.got[i].err = "" /\ (H.got[i].ttl < H.par.min \/ H.got[i].ttl > H.par.max))
NullHop == [k |-> "none"]
EngMerge(res, g) == IF res[g.ttl].k = "none" \/ (~res[g.ttl].dest /\ g.dest)
                    THEN [res EXCEPT ![g.ttl] = [k |-> "hop", dest |-> g.dest, addr |-> g.addr, rtt_us |-> g.rtt_us]] ELSE res
RECURSIVE EngFold(_, _)
EngFold(s, res) == IF s = <<>> THEN res ELSE EngFold(Tail(s), EngMerge(res, Head(s)))
EngClip(par, res) ==
    LET D == {t \in par.min..par.max : res[t].k = "hop" /\ res[t].dest}
        last == IF D = {} THEN par.max ELSE Min(D)
    IN [k \in 1..(last - par.min + 1) |->
          LET r == res[par.min + k - 1] IN
          IF r.k = "hop" THEN [ttl |-> par.min + k - 1, addr |-> r.addr, dest |-> r.dest, rtt_us |-> r.rtt_us]
          ELSE [ttl |-> par.min + k - 1, addr |-> "", dest |-> FALSE, rtt_us |-> 0]]
HopProj(hops) == [k \in DOMAIN hops |-> [ttl |-> hops[k].ttl, addr |-> hops[k].addr, dest |-> hops[k].dest, rtt_us |-> hops[k].rtt_us]]

\* C07 (parallel): the output is Clip(Fold(accepted)) - first wins, destination overrides - whatever the schedule was;
\* and the receiver keeps reading until the deadline (also after the destination answered): every reply that became
\* readable at least one poll interval before the deadline was read
AllDueRead(H) ==
    LET t0 == IF Len(H.sent) > 0 THEN H.sent[1].t ELSE 0
        dl == t0 + H.par.timeout_us + H.par.delay_us * ProbeCount(H) - H.par.poll_us
        need == Cardinality({i \in DOMAIN H.due : H.due[i].t <= dl})
    IN (H.out.ok /\ H.cancel < 0) => Len(H.got) >= need
C07_eng(H) == /\ H.out.ok => HopProj(H.out.hops) = EngClip(H.par, EngFold(EngAccepted(H), [t \in H.par.min..H.par.max |-> NullHop]))
              /\ AllDueRead(H)
\* C03: shape, and the list ends at the lowest TTL for which a destination reply was accepted
C03_eng(H) ==
    H.out.ok =>
      /\ Shape(H.par, H.out.hops)
      /\ LET a == EngAccepted(H)
             D == {a[i].ttl : i \in {i \in DOMAIN a : a[i].dest}}
         IN (~IsSerial(V(H)) \/ TRUE) =>
              IF D = {} THEN Len(H.out.hops) = ProbeCount(H) ELSE Len(H.out.hops) = Min(D) - H.par.min + 1
C06_eng(H) ==
    LET s == SelectSeq(H.sent, LAMBDA x : ~x.fail)  a == EngAccepted(H) IN
    /\ \A k \in DOMAIN s : s[k].ttl = H.par.min + k - 1
    /\ Len(s) <= ProbeCount(H)
    /\ \A k \in 2..Len(s) : s[k].t >= s[k - 1].t + H.par.delay_us
    /\ \A i \in DOMAIN a : a[i].dest => Cardinality({k \in DOMAIN s : s[k].n > a[i].n}) <= 1
C05_eng(H) ==
    H.out.ok => \A k \in DOMAIN H.out.hops :
        LET h == H.out.hops[k] IN
        /\ h.rtt_us >= 0
        /\ h.addr # "" => \E i \in DOMAIN H.got : H.got[i].err = "" /\ H.got[i].ttl = h.ttl /\ H.got[i].addr = h.addr
                                /\ Abs(h.rtt_us - H.got[i].rtt_us) <= H.par.poll_us
EngBound(par) == IF IsSerial(par.variant) THEN (par.max - par.min + 1) * (par.timeout_us + par.poll_us + par.delay_us)
                 ELSE par.timeout_us + par.delay_us * (par.max - par.min + 1) + par.poll_us
C08_eng(H) ==
    /\ H.out.t <= EngBound(H.par)
    /\ (H.cancel >= 0 /\ H.cancel < H.out.t) => (H.out.t <= H.cancel + H.par.poll_us + H.par.delay_us /\ ~H.out.ok /\ H.out.err.canceled)
\* a failing driver call gives an error that wraps the cause and no result; no goroutine outlives the call
C10_eng(H) ==
    \* (when a failing call and a contract violation of the driver - nil response, TTL out of range - happen at the same instant,
    \* the engine reports whichever its goroutines hit first: the cause must be wrapped unless such a violation also occurred)
    /\ ((\E i \in DOMAIN H.sent : H.sent[i].fail) \/ (\E i \in DOMAIN H.got : H.got[i].err = "fatal")) =>
           (~H.out.ok /\ (H.out.err.engfatal \/ \E i \in DOMAIN H.got : H.got[i].err = "nil" \/ (H.got[i].err = "" /\ (H.got[i].ttl < H.par.min \/ H.got[i].ttl > H.par.max))))
    /\ EngFatal(H) => ~H.out.ok
    /\ H.out.goroutines = 0 /\ H.out.panic = ""

(***************************************************************************)
(* Request level (traceroute.RunTraceroute / HTTP handler): several wire   *)
(* runs share one history; a wire run is identified by the index of its    *)
(* sink (order of creation).                                               *)
(***************************************************************************)
WireRuns(H) == {H.sent[i].run : i \in DOMAIN H.sent}
FatalOps == {"newsink", "newsource", "setfilter", "setdeadline", "read", "write"}
FiredFailing(H) == {i \in DOMAIN H.flt : H.flt[i].op \in FatalOps /\ H.flt[i].class \in {"fatal", "zero", "typed"}}
CauseName(f) == f.op \o "@" \o ToString(f.run)
HasCause(out, c) == \E k \in DOMAIN out.err.causes : out.err.causes[k] = c

\* the driver-level parameters of wire run w, reconstructed from its first probe
RunVariant(H, p) ==
    CASE p.kind = "echo_req" -> IF p.v = 6 THEN "icmp6" ELSE "icmp4"
      [] p.kind = "udp" -> IF p.v = 6 THEN "udp6" ELSE "udp4"
      [] p.kind = "tcp" /\ p.flags = SYN -> IF H.par.paris THEN "tcp_paris" ELSE "tcp"
      [] OTHER -> "sack"
RunPar(H, w) ==
    LET s == SentOfRun(H, w)  p == s[1].p  v == RunVariant(H, p) IN
    [variant |-> v, strict |-> (v # "sack"), min |-> s[1].ttl, max |-> H.par.max, timeout_us |-> H.par.timeout_us,
     delay_us |-> IF v = "sack" THEN 10000 ELSE H.par.delay_us, poll_us |-> 100000, target |-> p.dst, port |-> p.dport,
     entry |-> "proto", cancel_us |-> 0, paris |-> H.par.paris]
HRun(H, w) == [H EXCEPT !.par = RunPar(H, w)]
IsE2E(H, w) == H.par.min < H.par.max /\ SentOfRun(H, w)[1].ttl = H.par.max

\* C11 (allocators): ranges returned to concurrent callers are pairwise disjoint modulo 65536, echo ids distinct
C11_alloc(H) ==
    LET a == SelectSeq(H.got, LAMBDA x : x.caller >= 0)
        st == SelectSeq(H.got, LAMBDA x : x.caller < 0)       \* stress rounds: every block start handed out in one round
        ids(i) == {(a[i].base + t) % 65536 : t \in 1..a[i].m}
    IN /\ \A i, j \in DOMAIN a : i # j => (ids(i) \cap ids(j) = {} /\ a[i].echo # a[j].echo)
       \* blocks that are live together and do not overlap have pairwise different starts (a necessary condition, cheap on 2 000 blocks)
       /\ \A r \in DOMAIN st : Cardinality({st[r].bases[k] : k \in DOMAIN st[r].bases}) = Len(st[r].bases)
       \* all blocks of a round have the same size m: they are pairwise disjoint modulo 65536 iff the sorted starts are at least m apart,
       \* the last and the first one across the wrap included
       /\ \A r \in DOMAIN st :
             LET b == SortSeq(st[r].bases, LAMBDA x, y : x < y)  n == Len(b)  m == st[r].m IN
             /\ \A k \in 1..(n - 1) : b[k + 1] - b[k] >= m
             /\ (n >= 2 => b[1] + 65536 - b[n] >= m)

\* C15: all-or-error with exact counts
C15_run(H) ==
    LET ff == FiredFailing(H) IN
    /\ H.out.panic = ""
    /\ H.out.ok => (Len(H.out.runs) = H.par.queries /\ Len(H.out.rtts_us) = H.par.e2e /\ ff = {})
    /\ ff # {} => /\ ~H.out.ok /\ ~H.out.has_result
                  /\ \A i \in ff : H.flt[i].class \in {"fatal", "typed"} => HasCause(H.out, CauseName(H.flt[i]))
    /\ (ff = {} /\ H.cancel < 0) => H.out.ok     \* in particular a failing public-IP lookup never fails the request
    \* the ICMP entry point takes the caller's context: a run that was on its way when the context ended (cancelled or deadline
    \* passed) has failed, so the request has
    /\ (H.par.protocol = "icmp" /\ H.cancel >= 0
          /\ \E w \in WireRuns(H) : /\ SentOfRun(H, w)[1].t < H.cancel
                                    /\ \E i \in DOMAIN H.hlog : H.hlog[i].ev = "Close" /\ H.hlog[i].run = w /\ H.hlog[i].t > H.cancel)
        => ~H.out.ok
    /\ H.out.ok => (H.out.pub = IF H.par.public_ip /\ H.par.pub_mode = "ok" THEN "203.0.113.77" ELSE "")

\* C01 through the HTTP API: every reported run is the run of probes that left during THIS request (same source port as a wire run of
\* the trace, every addressed hop backed by a packet delivered to that run's capture handle from that address)
C01_http(H) ==
    H.out.ok => \A r \in DOMAIN H.out.runs :
        \E w \in WireRuns(H) :
            /\ SentOfRun(H, w)[1].p.sport = H.out.runs[r].sport \/ SentOfRun(H, w)[1].p.kind = "echo_req"
            /\ \A k \in DOMAIN H.out.runs[r].hops :
                  H.out.runs[r].hops[k].addr # "" => \E i \in DOMAIN H.del : H.del[i].run = w /\ PktOf(H, H.del[i]).src = H.out.runs[r].hops[k].addr

\* C06 at request level: every wire run of the request emits one probe per TTL, in increasing order, at least the configured delay apart
C06_req(H) ==
    \A w \in WireRuns(H) :
        LET s == SentOfRun(H, w) IN
        \A j \in 1..(Len(s) - 1) : s[j + 1].ttl = s[j].ttl + 1 /\ s[j + 1].t - s[j].t >= H.par.delay_us

\* C10 at request level (RunTraceroute / the HTTP handler): whatever ended the request - success, failure, cancellation while probes
\* were being paced - no goroutine it started is still alive once it has returned, and every handle it opened was closed exactly once
C10_req(H) ==
    /\ H.out.panic = ""
    \* a failing handle operation fails the request: an error that wraps the cause, no result (never masked by a retry on fresh handles)
    /\ (FiredFailing(H) # {} => (~H.out.ok /\ ~H.out.has_result
                                  /\ \A i \in FiredFailing(H) : H.flt[i].class \in {"fatal", "typed"} => (HasCause(H.out, CauseName(H.flt[i])) \/ HasCause(H.out, H.flt[i].op))))
    /\ H.out.goroutines = 0
    /\ H.out.opened = H.out.closed_once /\ Len(H.out.bad_handles) = 0

\* C11 at the protocol entry points: every one of several concurrent results is the result of ITS OWN wire run (matched by source
\* port; ICMP has none: by order) - each of its hops is backed by a packet delivered to that run's handle that answers that run's probe
C11_same(H) ==
    /\ H.out.conc_err = 0 /\ Len(H.out.conc) = H.par.concurrent
    /\ \A c \in DOMAIN H.out.conc :
          \E w \in WireRuns(H) :
             /\ (~IsICMPv(V(H)) => SentOfRun(H, w)[1].p.sport = H.out.conc[c].sport)
             /\ C01_run(H, SentOfRun(H, w), DelOfRun(H, w), H.out.conc[c].hops)
    \* Paris mode with relaxed source checking: the per-probe sequence number is all that tells concurrent runs to one target apart
    \* on the wire - no two probes of different runs carry the same one (32-bit random numbers: a collision is a defect, not chance)
    /\ (V(H) = "tcp_paris" /\ ~H.par.strict) =>
          \A a, b \in DOMAIN H.sent : H.sent[a].run # H.sent[b].run => H.sent[a].p.seq # H.sent[b].p.seq

\* C04 at request level (library results; scripted paths on which only the target sends proof-of-arrival replies)
C04_req(H) ==
    H.out.ok => \A r \in DOMAIN H.out.runs : \A k \in DOMAIN H.out.runs[r].hops :
                   LET h == H.out.runs[r].hops[k] IN h.addr # "" => (h.dest <=> h.addr = H.par.target)

\* C18 at request level: the public address in the answer is what discovery yields when it is given the time IT needs (the caller's
\* context, nothing shorter): a provider that answers after 2.5 s still answers; a failing discovery leaves the field empty
C18_req(H) ==
    H.out.ok => /\ (H.par.pub_mode \in {"ok", "slow"} => H.out.pub = "203.0.113.77")
                /\ (H.par.pub_mode = "fail" => H.out.pub = "")

\* C19: parameters honoured exactly or rejected (expect = the meaning assigned by GenRun!Expect)
C19_run(H) ==
    LET ex == H.par.expect
        Good(w) ==
            LET s == SentOfRun(H, w)
                e2e == IsE2E(H, w)                                      \* an end-to-end probe: one packet at the last TTL, always SYN for TCP
                kind == IF e2e /\ ex.kind = "sack" THEN "syn" ELSE ex.kind
            IN /\ {s[j].ttl : j \in DOMAIN s} = (IF e2e THEN {ex.max} ELSE ex.min..ex.max)
               /\ Len(s) = (IF e2e THEN 1 ELSE ex.max - ex.min + 1)
               /\ \A j \in DOMAIN s :
                     /\ s[j].p.dst = ex.addr
                     /\ (kind # "echo_req" => s[j].p.dport = ex.port)
                     /\ CASE kind = "echo_req" -> s[j].p.kind = "echo_req"
                          [] kind = "udp" -> s[j].p.kind = "udp"
                          [] kind = "syn" -> s[j].p.kind = "tcp" /\ s[j].p.flags = SYN
                          [] kind = "sack" -> s[j].p.kind = "tcp" /\ HasFlag(s[j].p, ACK) /\ ~HasFlag(s[j].p, SYN)
                          [] OTHER -> FALSE
    IN
    /\ H.out.panic = ""
    /\ ex.reject => ~H.out.ok
    \* an accepted parameter set towards a routable address is EXECUTED (no fault is injected in these scenarios): "rejected or executed"
    /\ (~ex.reject /\ ex.addr \notin {"255.255.255.255", "fe80::1"} /\ Len(H.flt) = 0 /\ H.cancel < 0) => H.out.ok
    /\ H.out.ok =>
         /\ WireRuns(H) # {}
         \* alone on the wire: every run is this request's. With other requests in flight on the same server: as many runs of the wire
         \* as the request asked for are executed exactly as it states, and the answer reports that many
         /\ IF H.par.others = 0 THEN \A w \in WireRuns(H) : Good(w)
            ELSE /\ Cardinality({w \in WireRuns(H) : ~IsE2E(H, w) /\ Good(w)}) >= H.par.queries
                 /\ Len(H.out.runs) = H.par.queries
                 /\ \A r \in DOMAIN H.out.runs : Len(H.out.runs[r].hops) <= ex.max - ex.min + 1
                        /\ (Len(H.out.runs[r].hops) = ex.max - ex.min + 1 \/ H.out.runs[r].hops[Len(H.out.runs[r].hops)].ttl < ex.max)

\* C17 over the wire: hop k of every reported run is router k of the scripted path (expect17.routers), emptied iff it is
\* private and skipping is on; names only where enrichment is on and the hop survives
C17_run(H) ==
    LET ex == H.par.expect17 IN
    /\ H.out.ok /\ Len(H.out.runs) = H.par.queries
    /\ \A r \in DOMAIN H.out.runs :
         LET hops == H.out.runs[r].hops IN
         IF ex.single
         THEN /\ Len(hops) = 1 /\ hops[1].ttl = 1
              /\ (IF ex.skip /\ ex.private[1] THEN hops[1].addr = "" /\ hops[1].rtt_us = 0 /\ ~hops[1].reach ELSE hops[1].addr = ex.routers[1])
         ELSE
         /\ Len(hops) = 8
         /\ \A k \in 1..7 :
              /\ hops[k].ttl = k
              /\ IF ex.routers[k] = "" \/ (ex.skip /\ ex.private[k])
                 THEN hops[k].addr = "" /\ hops[k].rtt_us = 0 /\ ~hops[k].reach /\ Len(hops[k].names) = 0
                 ELSE /\ hops[k].addr = ex.routers[k] /\ hops[k].rtt_us = 1000 * k /\ hops[k].reach
                      /\ hops[k].names = (IF ex.rdns THEN <<"name-of-hop">> ELSE <<>>)
         /\ (IF ex.private_target /\ ex.skip THEN hops[8].addr = "" /\ ~hops[8].reach ELSE hops[8].addr # "")

\* C08 on the real kernel: outcome as configured and within the bound that follows from the parameters (handshake timeout included)
C08_lab(H) == H.out.ok = H.par.expect.ok /\ (~H.par.expect.ok => H.out.notsupported = H.par.expect.notsupported) /\ H.out.elapsed_ms <= H.par.bound_ms

\* C13: the document reported on a real kernel path equals KernelPath!Expected (CLI output has no destination flag:
\* there the clipped length and the positive end-to-end sample show that the destination was recognised)
C13_lab(H) ==
    LET ex == H.par.expect  out == H.out IN
    /\ out.ok = ex.ok
    /\ (~ex.ok => out.notsupported = ex.notsupported)
    /\ ex.ok =>
         /\ Len(out.runs) = H.par.queries
         /\ \A r \in DOMAIN out.runs :
              LET hops == out.runs[r].hops IN
              /\ Len(hops) = Len(ex.hops)
              /\ \A k \in DOMAIN ex.hops :
                    /\ hops[k].ttl = ex.hops[k].ttl /\ hops[k].addr = ex.hops[k].addr
                    /\ (H.par.cli \/ hops[k].dest = ex.hops[k].dest)
                    /\ hops[k].rtt_us >= 0 /\ (hops[k].reach <=> hops[k].addr # "")
              /\ ((~H.par.skip /\ ex.hops[Len(ex.hops)].dest) => out.runs[r].dst = ex.hops[Len(ex.hops)].addr)
              /\ (~H.par.skip => out.runs[r].dst = H.par.target)
         \* (the end-to-end sample is taken before redaction: positive also when every hop is redacted)
         /\ Len(out.rtts_us) = H.par.e2e /\ \A i \in DOMAIN out.rtts_us : out.rtts_us[i] > 0

\* C20: TCP method policy (expect20 = TcpPolicy!Code for the scenario's method / capability / injected failure)
IsSynProbe(p) == p.kind = "tcp" /\ p.flags = SYN
IsSackProbe(p) == p.kind = "tcp" /\ HasFlag(p, ACK) /\ ~HasFlag(p, SYN)
C20_run(H) ==
    LET ex == H.par.expect20
        W == WireRuns(H)
        TrW == {w \in W : ~IsE2E(H, w)}                                   \* wire runs of the traceroute query
        SynTr == {w \in TrW : IsSynProbe(SentOfRun(H, w)[1].p)}
        SackTr == {w \in TrW : IsSackProbe(SentOfRun(H, w)[1].p)}
        E2E == {w \in W : IsE2E(H, w)}
        Sinks == Cardinality({i \in DOMAIN H.hlog : H.hlog[i].ev = "Open" /\ H.hlog[i].kind = "sink"})
        \* a SYN attempt of the traceroute query happened (its first write may have been the injected failure)
        SynAttempted == SynTr # {} \/ (H.par.e2e = 0 /\ Sinks >= 2)
    IN /\ H.out.panic = ""
       /\ \A w \in E2E : \A j \in DOMAIN SentOfRun(H, w) : IsSynProbe(SentOfRun(H, w)[j].p)     \* e2e probes use SYN whatever the method
       /\ (ex.method = "syn" => H.out.accepts = 0 /\ SackTr = {})                                  \* syn: no TCP connection is ever opened
       /\ (ex.method = "sack" => ~SynAttempted)                                                     \* sack: never masked by a SYN trace
       /\ (ex.fallback <=> (ex.method = "prefer_sack" /\ SynAttempted))                               \* SYN path exactly when SACK is unavailable
       \* (a request whose context was cancelled may also end with an error instead of the outcome of the policy)
       /\ (H.cancel >= 0 /\ ~H.out.ok /\ ~H.out.has_result) \/
          CASE ex.out = "sack" -> /\ H.out.ok /\ Len(H.out.runs) = 1 /\ SackTr # {}
                                  /\ \E w \in SackTr : SentOfRun(H, w)[1].p.sport = H.out.runs[1].sport
            [] ex.out = "syn"  -> /\ H.out.ok /\ Len(H.out.runs) = 1
                                  /\ \E w \in SynTr : SentOfRun(H, w)[1].p.sport = H.out.runs[1].sport
            [] ex.out = "error" -> /\ ~H.out.ok /\ ~H.out.has_result
                                   /\ (ex.notsup => H.out.err.notsupported)
                                   /\ \A i \in DOMAIN H.flt : H.flt[i].class = "fatal" => HasCause(H.out, H.flt[i].op)
            [] OTHER -> FALSE
=============================================================================
