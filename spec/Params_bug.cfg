SPECIFICATION Spec
CONSTANTS ValidateTTL = FALSE
  FamilyCheck = TRUE
INVARIANT C19_Design
CHECK_DEADLOCK FALSE
