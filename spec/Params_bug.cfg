SPECIFICATION Spec
CONSTANT ValidateTTL = FALSE
INVARIANT C19_Design
CHECK_DEADLOCK FALSE
