SPECIFICATION Spec
CONSTANTS
  N = 2
  M = 2
  WithPub = TRUE
  AtomicAppend = TRUE
INVARIANTS C15_AllOrError C15_NoLoss MutexOK
PROPERTY Terminates
CHECK_DEADLOCK FALSE
