SPECIFICATION Spec
CONSTANTS
  Narrow8 = FALSE
  AnyEchoSrc = FALSE
INVARIANTS C11_Design C01_Design C02_Design C04_Design C09_Design Unsup_Design
CHECK_DEADLOCK FALSE
