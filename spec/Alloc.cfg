SPECIFICATION Spec
CONSTANTS
  Callers = {c1, c2, c3}
  Sizes = {1, 30, 255}
  Bases = {0, 41821, 65300, 65535, 131071, 262143, 262000}
  Atomic = TRUE
  MaxAllocs = 6
INVARIANT C11_Disjoint
CONSTRAINT Bound
CHECK_DEADLOCK FALSE
