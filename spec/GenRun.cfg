INIT GInit
NEXT GNext
CONSTANT ValidateTTL = TRUE
