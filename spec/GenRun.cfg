INIT GInit
NEXT GNext
CONSTANTS ValidateTTL = TRUE
  FamilyCheck = TRUE
