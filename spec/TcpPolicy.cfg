SPECIFICATION Spec
INVARIANT C20_Design
CHECK_DEADLOCK FALSE
