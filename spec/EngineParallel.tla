--------------------------- MODULE EngineParallel ---------------------------
(***************************************************************************)
(* common.TracerouteParallel (common/traceroute_parallel.go) as a timed    *)
(* state machine with a FREE scripted driver: one action per critical      *)
(* section of the code.                                                    *)
(*                                                                         *)
(*   sender goroutine      SCheck -> SSend -> (sleep) SWake -> SCheck ...  *)
(*   receiver goroutine    RStart (hasSent gate) -> RLoop -> RGot |        *)
(*                         RDeadline -> RLoop ...                          *)
(*   contexts              timeoutCtx (TimeoutFire), ctx (ExtCancel),      *)
(*                         groupCtx = timeoutCtx or first goroutine error, *)
(*                         writerCtx = groupCtx or writerCancel            *)
(*   network / driver      Arrive moves a scripted reply to the driver's   *)
(*                         queue at its due time                           *)
(*   time                  Advance: maximal progress - time moves only     *)
(*                         when no instantaneous step is enabled (exactly  *)
(*                         the semantics of testing/synctest's bubble)     *)
(*                                                                         *)
(* Same-instant ties (a reply due exactly at a poll deadline, at the       *)
(* sender's wake-up or at the global timeout) are genuinely unordered in   *)
(* the code; here they are interleaved nondeterministically.               *)
(***************************************************************************)
EXTENDS Integers, Sequences, FiniteSets, TLC

CONSTANTS MinTTL, MaxTTL,     \* first / last TTL
          Timeout, Poll, Delay, \* TracerouteTimeout, PollFrequency, SendDelay (abstract time units)
          Scripts,            \* set of scripts; a script maps each TTL to the sequence of replies its probe triggers
          CancelTimes,        \* set of external cancellation instants; -1 = never
          SupportsParallel

VARIABLES script, cancelAt,   \* the environment chosen in Init
          now,
          spc, si, swake,     \* sender: pc, next TTL, wake-up time
          rpc, rdl,           \* receiver: pc, read deadline
          hasSent, wcancel, gerr, tout, ext,
          inflight, queue,    \* replies on their way / readable by ReceiveProbe
          results,            \* merged best reply per TTL
          sent, acc,          \* history: probes sent, replies returned by ReceiveProbe without error
          out                 \* return value
vars == <<script, cancelAt, now, spc, si, swake, rpc, rdl, hasSent, wcancel, gerr, tout, ext, inflight, queue, results, sent, acc, out>>

TTLs == MinTTL..MaxTTL
Count == MaxTTL - MinTTL + 1
MaxTimeout == Timeout + Delay * Count
Null == [k |-> "none"]
NoOut == [set |-> FALSE]

GroupDone == tout \/ ext \/ gerr # ""        \* groupCtx.Err() != nil
WriterDone == GroupDone \/ wcancel           \* writerCtx.Err() != nil
Valid == MinTTL >= 1 /\ MinTTL <= MaxTTL     \* TracerouteParams.validate

Init ==
    /\ script \in Scripts /\ cancelAt \in CancelTimes
    /\ now = 0
    /\ spc = "check" /\ si = MinTTL /\ swake = 0
    /\ rpc = "wait" /\ rdl = 0
    /\ hasSent = FALSE /\ wcancel = FALSE /\ gerr = "" /\ tout = FALSE /\ ext = FALSE
    /\ inflight = {} /\ queue = <<>>
    /\ results = [t \in TTLs |-> Null]
    /\ sent = <<>> /\ acc = <<>>
    /\ out = IF ~SupportsParallel THEN [set |-> TRUE, ok |-> FALSE, err |-> "noparallel", hops |-> <<>>, t |-> 0] ELSE NoOut

Running == ~out.set

---------------------------------------------------------------------------
(* sender *)
SCheck ==
    /\ Running /\ spc = "check"
    /\ IF WriterDone \/ si > MaxTTL
       THEN spc' = "done" /\ hasSent' = TRUE        \* deferred sentOnce.Do(close(hasSent))
       ELSE spc' = "send" /\ UNCHANGED hasSent
    /\ UNCHANGED <<script, cancelAt, now, si, swake, rpc, rdl, wcancel, gerr, tout, ext, inflight, queue, results, sent, acc, out>>

SendFails(t) == \E k \in DOMAIN script[t] : script[t][k].err = "sendfail"
SSend ==
    /\ Running /\ spc = "send"
    /\ IF SendFails(si)
       THEN \* the goroutine returns its error: the deferred close(hasSent) runs now, errgroup cancels the group context only
            \* afterwards (SPublish) - in between the receiver may still see a live context and poll once more
            /\ spc' = "failed" /\ hasSent' = TRUE
            /\ UNCHANGED <<gerr, si, swake, inflight, sent>>
       ELSE /\ sent' = Append(sent, [ttl |-> si, t |-> now])
            /\ inflight' = inflight \cup {[id |-> <<si, k>>, at |-> now + script[si][k].delay, r |-> script[si][k]] : k \in DOMAIN script[si]}
            /\ hasSent' = TRUE
            /\ spc' = "sleep" /\ swake' = now + Delay /\ si' = si + 1
            /\ UNCHANGED gerr
    /\ UNCHANGED <<script, cancelAt, now, rpc, rdl, wcancel, tout, ext, queue, results, acc, out>>

SWake ==
    /\ Running /\ spc = "sleep" /\ now = swake
    /\ spc' = "check"
    /\ UNCHANGED <<script, cancelAt, now, si, swake, rpc, rdl, hasSent, wcancel, gerr, tout, ext, inflight, queue, results, sent, acc, out>>

(* receiver *)
RStart ==
    /\ Running /\ rpc = "wait" /\ hasSent
    /\ rpc' = "loop"
    /\ UNCHANGED <<script, cancelAt, now, spc, si, swake, rdl, hasSent, wcancel, gerr, tout, ext, inflight, queue, results, sent, acc, out>>

RLoop ==
    /\ Running /\ rpc = "loop"
    /\ IF GroupDone THEN rpc' = "done" /\ UNCHANGED rdl
                    ELSE rpc' = "recv" /\ rdl' = now + Poll
    /\ UNCHANGED <<script, cancelAt, now, spc, si, swake, hasSent, wcancel, gerr, tout, ext, inflight, queue, results, sent, acc, out>>

SentAt(t) == IF \E k \in DOMAIN sent : sent[k].ttl = t THEN sent[CHOOSE k \in DOMAIN sent : sent[k].ttl = t].t ELSE 0

\* writeProbe: first reply wins, a destination reply replaces a non-destination one
Merge(res, p) == IF res[p.ttl].k = "none" \/ (~res[p.ttl].dest /\ p.dest) THEN [res EXCEPT ![p.ttl] = p] ELSE res

RGot ==
    /\ Running /\ rpc = "recv" /\ Len(queue) > 0
    /\ LET r == Head(queue) IN
       /\ queue' = Tail(queue)
       /\ CASE r.err \in {"bad", "nopkt"} ->                       \* CheckProbeRetryable: continue
                 rpc' = "loop" /\ UNCHANGED <<results, acc, wcancel, gerr>>
            [] r.err = "fatal" ->
                 rpc' = "failed_recv" /\ UNCHANGED <<results, acc, wcancel, gerr>>
            [] r.err = "nil" \/ (r.err = "" /\ (r.ttl < MinTTL \/ r.ttl > MaxTTL)) ->    \* validateProbe
                 rpc' = "failed_invalid" /\ UNCHANGED <<results, acc, wcancel, gerr>>
            [] OTHER ->
                 LET p == [k |-> "hop", ttl |-> r.ttl, dest |-> r.dest, ip |-> r.ip, at |-> now, rtt |-> now - SentAt(r.ttl)] IN
                 /\ results' = Merge(results, p)
                 /\ acc' = Append(acc, p)
                 /\ wcancel' = (wcancel \/ r.dest)
                 /\ rpc' = "loop" /\ UNCHANGED gerr
    /\ UNCHANGED <<script, cancelAt, now, spc, si, swake, rdl, hasSent, tout, ext, inflight, sent, out>>

\* errgroup: the first error a goroutine RETURNED cancels the group context - a separate step after the goroutine's own last step
\* (the other goroutine can pass one more context check in between: one more probe sent, one more poll)
SPublish ==
    /\ Running /\ spc = "failed"
    /\ spc' = "done" /\ gerr' = (IF gerr = "" THEN "send" ELSE gerr)
    /\ UNCHANGED <<script, cancelAt, now, si, swake, rpc, rdl, hasSent, wcancel, tout, ext, inflight, queue, results, sent, acc, out>>
RPublish ==
    /\ Running /\ rpc \in {"failed_recv", "failed_invalid"}
    /\ rpc' = "done" /\ gerr' = (IF gerr = "" THEN (IF rpc = "failed_recv" THEN "recv" ELSE "invalid") ELSE gerr)
    /\ UNCHANGED <<script, cancelAt, now, spc, si, swake, rdl, hasSent, wcancel, tout, ext, inflight, queue, results, sent, acc, out>>

RDeadline ==
    /\ Running /\ rpc = "recv" /\ Len(queue) = 0 /\ now = rdl
    /\ rpc' = "loop"
    /\ UNCHANGED <<script, cancelAt, now, spc, si, swake, rdl, hasSent, wcancel, gerr, tout, ext, inflight, queue, results, sent, acc, out>>

(* environment *)
Arrive ==
    /\ Running
    /\ \E x \in inflight :
         /\ x.at = now
         /\ inflight' = inflight \ {x}
         /\ queue' = Append(queue, x.r)
    /\ UNCHANGED <<script, cancelAt, now, spc, si, swake, rpc, rdl, hasSent, wcancel, gerr, tout, ext, results, sent, acc, out>>

TimeoutFire ==
    /\ Running /\ ~tout /\ now = MaxTimeout
    /\ tout' = TRUE
    /\ UNCHANGED <<script, cancelAt, now, spc, si, swake, rpc, rdl, hasSent, wcancel, gerr, ext, inflight, queue, results, sent, acc, out>>

ExtCancel ==
    /\ Running /\ ~ext /\ cancelAt >= 0 /\ now = cancelAt
    /\ ext' = TRUE
    /\ UNCHANGED <<script, cancelAt, now, spc, si, swake, rpc, rdl, hasSent, wcancel, gerr, tout, inflight, queue, results, sent, acc, out>>

\* clipResults + ToHops
Clip(res) ==
    LET D == {t \in TTLs : res[t].k = "hop" /\ res[t].dest}
        last == IF D = {} THEN MaxTTL ELSE CHOOSE t \in D : \A u \in D : t <= u
    IN [k \in 1..(last - MinTTL + 1) |-> res[MinTTL + k - 1]]

Finish ==
    /\ Running /\ spc = "done" /\ rpc = "done"
    /\ out' = IF gerr # "" THEN [set |-> TRUE, ok |-> FALSE, err |-> gerr, hops |-> <<>>, t |-> now]
              ELSE IF ext THEN [set |-> TRUE, ok |-> FALSE, err |-> "canceled", hops |-> <<>>, t |-> now]
              ELSE [set |-> TRUE, ok |-> TRUE, err |-> "", hops |-> Clip(results), t |-> now]
    /\ UNCHANGED <<script, cancelAt, now, spc, si, swake, rpc, rdl, hasSent, wcancel, gerr, tout, ext, inflight, queue, results, sent, acc>>

Instant == ENABLED SPublish \/ ENABLED RPublish \/ ENABLED SCheck \/ ENABLED SSend \/ ENABLED SWake \/ ENABLED RStart \/ ENABLED RLoop \/ ENABLED RGot
           \/ ENABLED RDeadline \/ ENABLED Arrive \/ ENABLED TimeoutFire \/ ENABLED ExtCancel \/ ENABLED Finish

\* next instants at which something can happen
Wakeups == (IF spc = "sleep" THEN {swake} ELSE {}) \cup (IF rpc = "recv" THEN {rdl} ELSE {})
           \cup {x.at : x \in inflight} \cup (IF ~tout THEN {MaxTimeout} ELSE {})
           \cup (IF cancelAt >= 0 /\ ~ext THEN {cancelAt} ELSE {})
Advance ==
    /\ Running /\ ~Instant
    /\ LET W == {w \in Wakeups : w > now} IN
       /\ W # {}
       /\ now' = CHOOSE w \in W : \A v \in W : w <= v
    /\ UNCHANGED <<script, cancelAt, spc, si, swake, rpc, rdl, hasSent, wcancel, gerr, tout, ext, inflight, queue, results, sent, acc, out>>

Next == SPublish \/ RPublish \/ SCheck \/ SSend \/ SWake \/ RStart \/ RLoop \/ RGot \/ RDeadline \/ Arrive \/ TimeoutFire \/ ExtCancel \/ Finish \/ Advance
Spec == Init /\ [][Next]_vars
FairSpec == Spec /\ WF_vars(Next)

---------------------------------------------------------------------------
(* properties over the history *)
\* reference fold of C07 over the accepted replies, in acceptance order
RECURSIVE Fold(_, _)
Fold(s, res) == IF s = <<>> THEN res ELSE Fold(Tail(s), Merge(res, Head(s)))
EmptyRes == [t \in TTLs |-> Null]

\* C07: the result depends on the accepted replies only through the two rules
C07_Fold == (out.set /\ out.ok) => out.hops = Clip(Fold(acc, EmptyRes))
C07_Running == Running => results = Fold(acc, EmptyRes)

\* C03: shape
Shape(hops) ==
    /\ Len(hops) >= 1 /\ Len(hops) <= Count
    /\ \A k \in 1..(Len(hops) - 1) : ~(hops[k].k = "hop" /\ hops[k].dest)
    /\ (Len(hops) < Count => (hops[Len(hops)].k = "hop" /\ hops[Len(hops)].dest))
    /\ \A k \in DOMAIN hops : hops[k].k = "hop" => hops[k].ttl = MinTTL + k - 1
C03_Shape == (out.set /\ out.ok) => Shape(out.hops)
\* ends at the lowest TTL for which a destination reply was accepted
C03_LowestDest == (out.set /\ out.ok) =>
    LET D == {acc[i].ttl : i \in {i \in DOMAIN acc : acc[i].dest}}
    IN IF D = {} THEN Len(out.hops) = Count ELSE Len(out.hops) = (CHOOSE t \in D : \A u \in D : t <= u) - MinTTL + 1

\* C06: emission order, pacing, stop after destination (one in flight excepted)
C06_Order == \A k \in DOMAIN sent : sent[k].ttl = MinTTL + k - 1
C06_Paced == \A k \in 2..Len(sent) : sent[k].t >= sent[k - 1].t + Delay
C06_Stop  == \A i \in DOMAIN acc : acc[i].dest => Cardinality({k \in DOMAIN sent : sent[k].t > acc[i].at}) = 0
\* (a send AT the instant of the acceptance is the "already in flight" tie)

\* C05: RTT of a merged reply is acceptance time minus the send time of ITS probe, never negative
C05_RTT == \A i \in DOMAIN acc : acc[i].rtt >= 0 /\ acc[i].rtt = acc[i].at - SentAt(acc[i].ttl)

\* C08: bounded termination, prompt cancellation
C08_Bound == Running => now <= MaxTimeout + Poll
C08_Cancel == (out.set /\ cancelAt >= 0 /\ out.t > cancelAt) => (out.t <= cancelAt + Poll + Delay /\ ~out.ok)
\* every reply returned by the receiver before the deadline is reflected (C07 second clause)
C07_AllAccepted == (out.set /\ out.ok) => \A i \in DOMAIN acc : \E t \in TTLs : t = acc[i].ttl

Terminates == <>(out.set)
=============================================================================
