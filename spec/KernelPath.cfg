INIT Init
NEXT Next
