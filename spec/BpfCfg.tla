------------------------------- MODULE BpfCfg -------------------------------
(* The filter configurations C12 quantifies over: the static programs and the generated TCP 4-tuple program for        *)
(* address/port byte patterns at sign / endianness boundaries. Written as JSON for the harness, which extracts the     *)
(* actual instructions from the working tree (hook H2).                                                              *)
EXTENDS Integers, Sequences, FiniteSets, TLC, Json, IOUtils, SequencesExt

Addrs == {<<0, 0, 0, 0>>, <<127, 255, 128, 255>>, <<255, 255, 255, 255>>, <<1, 2, 3, 4>>, <<198, 51, 100, 9>>, <<10, 77, 0, 1>>}
Ports == {0, 1, 255, 256, 32768, 65535, 33434}
AddrPairs == {<<a, b>> \in Addrs \X Addrs : a = <<198, 51, 100, 9>> \/ b = <<10, 77, 0, 1>> \/ a = b}
PortPairs == {<<p, q>> \in Ports \X Ports : p = 33434 \/ q = 255 \/ p = q}
Tuple(a, p) == [name |-> "tcp", ftype |-> 3, src |-> a[1], dst |-> a[2], sport |-> p[1], dport |-> p[2]]
Static(n, t) == [name |-> n, ftype |-> t, src |-> <<0, 0, 0, 0>>, dst |-> <<0, 0, 0, 0>>, sport |-> 0, dport |-> 0]
\* ftype -2, -3, -4: interpreter self-test programs of the harness (every opcode class of classic BPF); they bind Bpf.tla's
\* interpreter to the real x/net/bpf VM beyond the opcodes the repository's programs use today
\* the SYN-ACK filter is installed with the dialled endpoint in its configuration (sack/traceroute_sack.go): it must not depend on it
SynackFor(a, p) == [Static("synack", 4) EXCEPT !.src = a, !.sport = p]
Configs == {SynackFor(<<198, 51, 100, 9>>, 443), SynackFor(<<1, 2, 3, 4>>, 33434), SynackFor(<<127, 255, 128, 255>>, 65535)} \cup
           {Static("icmp", 1), Static("udp", 2), Static("synack", 4), Static("dropall", -1), Static("selftest", -2), Static("selftest", -3), Static("selftest", -4)}
           \cup {Tuple(a, <<33434, 40000>>) : a \in AddrPairs} \cup {Tuple(<<<<198, 51, 100, 9>>, <<10, 77, 0, 1>>>>, p) : p \in PortPairs}
ASSUME JsonSerialize(IOEnv.VT_OUT, SetToSeq(Configs)) /\ PrintT(<<"GEN", "bpfcfg", Cardinality(Configs), Cardinality(Configs)>>)
VARIABLE x
Init == x = 0
Next == UNCHANGED x
=============================================================================
