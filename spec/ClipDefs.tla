------------------------------ MODULE ClipDefs ------------------------------
(* Verbatim copies of EngineParallel!Clip and EngineParallel!Shape (clipResults + ToHops and the C03 shape property), kept  *)
(* in a module without RECURSIVE operators so that the TLA+ proof system accepts it: ClipProof.tla proves                  *)
(*     ResOK(res) => Shape(Clip(res))     for ANY first/last TTL and ANY result table,                                      *)
(* EngineParallelMC instantiates this module and lets TLC check, on every reachable state, that the copies agree with the *)
(* originals (ClipCopyAgrees) and that the engine maintains the hypothesis (ClipHyp).                                      *)
EXTENDS Integers, Sequences

CONSTANTS MinTTL, MaxTTL
TTLs == MinTTL..MaxTTL
Count == MaxTTL - MinTTL + 1
Clip(res) ==
    LET D == {t \in TTLs : res[t].k = "hop" /\ res[t].dest}
        last == IF D = {} THEN MaxTTL ELSE CHOOSE t \in D : \A u \in D : t <= u
    IN [k \in 1..(last - MinTTL + 1) |-> res[MinTTL + k - 1]]
Shape(hops) ==
    /\ Len(hops) >= 1 /\ Len(hops) <= Count
    /\ \A k \in 1..(Len(hops) - 1) : ~(hops[k].k = "hop" /\ hops[k].dest)
    /\ (Len(hops) < Count => (hops[Len(hops)].k = "hop" /\ hops[Len(hops)].dest))
    /\ \A k \in DOMAIN hops : hops[k].k = "hop" => hops[k].ttl = MinTTL + k - 1

\* the only hypothesis about the result table: an answered entry carries the TTL of its slot (writeProbe stores probe.TTL at
\* index probe.TTL; EngineParallelMC checks it as an invariant of the engine: ClipHyp)
ResOK(res) == \A t \in TTLs : res[t].k = "hop" => res[t].ttl = t

=============================================================================
