SPECIFICATION Spec
CONSTANTS
  Narrow8 = FALSE
  AnyEchoSrc = TRUE
INVARIANTS C01_Design C04_Design
CHECK_DEADLOCK FALSE
