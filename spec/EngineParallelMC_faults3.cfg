SPECIFICATION Spec
CONSTANTS
  MinTTL = 3
  MaxTTL = 5
  Timeout = 6
  Poll = 3
  Delay = 2
  Scripts <- FaultScripts
  CancelTimes <- NoCancel
  SupportsParallel = TRUE
INVARIANTS C07_Fold C07_Running C03_Shape C03_LowestDest C06_Order C06_Paced C06_Stop C05_RTT C08_Bound C08_Cancel EmitOut ClipCopyAgrees ClipHyp
CHECK_DEADLOCK FALSE
