----------------------------- MODULE KernelPath -----------------------------
(***************************************************************************)
(* C13: the expected document for a real Linux path built from kernel      *)
(* routers (network namespaces joined by veth pairs, ip_forward = 1).      *)
(* Hop k (1..n) is router k, which answers with the address of its         *)
(* interface facing the tracer (10.<100+k-1>.0.2) unless its ICMP          *)
(* generation is suppressed; hop n+1 is the destination 10.<100+n>.0.2.    *)
(* What the destination answers depends on the variant and on its port:    *)
(*   icmp: echo reply;  udp: port unreachable;                             *)
(*   tcp syn: SYN-ACK (open) or RST (closed);                              *)
(*   tcp sack: selective ACKs if the port is open and SACK enabled, else   *)
(*             NotSupportedError;  prefer_sack: SACK, else the SYN path.   *)
(***************************************************************************)
EXTENDS Integers, Sequences, FiniteSets, TLC, Json, IOUtils, Randomization, SequencesExt

MaxN == atoi(IOEnv.VT_N)
Variants == {<<"icmp", "">>, <<"udp", "">>, <<"tcp", "syn">>, <<"tcp", "sack">>, <<"tcp", "prefer_sack">>}
RouterAddr(k) == "10." \o ToString(100 + k - 1) \o ".0.2"
DestAddr(n) == "10." \o ToString(100 + n) \o ".0.2"
\* the same links carry IPv6: fd00:<100+k>::1 / ::2
RouterAddr6(k) == "fd00:" \o ToString(100 + k - 1) \o "::2"
DestAddr6(n) == "fd00:" \o ToString(100 + n) \o "::2"

Expected(v, n, port, silent, first) ==
    LET fails == v[2] = "sack" /\ port # "open"
        hops == [k \in 1..(n + 1 - first + 1) |->
                   LET t == first + k - 1 IN
                   IF t = n + 1 THEN [ttl |-> t, addr |-> DestAddr(n), dest |-> TRUE]
                   ELSE [ttl |-> t, addr |-> IF t \in silent THEN "" ELSE RouterAddr(t), dest |-> FALSE]]
    IN [ok |-> ~fails, notsupported |-> fails, hops |-> IF fails THEN <<>> ELSE hops]

Lab(v, n, port, silent, first, q, cli) ==
    [id |-> "C13/" \o v[1] \o v[2] \o "/n" \o ToString(n) \o "/" \o port \o "/s" \o ToJson(silent) \o "/f" \o ToString(first) \o "/q" \o ToString(q) \o (IF cli THEN "/cli" ELSE ""),
     label |-> v[1] \o v[2] \o "/n" \o ToString(n) \o "/" \o port \o (IF silent = {} THEN "" ELSE "/silent") \o (IF first > 1 THEN "/first" \o ToString(first) ELSE "")
               \o (IF q > 1 THEN "/concurrent" ELSE "") \o (IF cli THEN "/cli" ELSE ""),
     kind |-> "lab", n |-> n, port |-> port, silent |-> SetToSeq(silent), cli |-> cli, v6 |-> FALSE, skip |-> FALSE,
     req |-> [hostname |-> DestAddr(n), port |-> 443, protocol |-> v[1], tcp_method |-> v[2], min_ttl |-> first, max_ttl |-> n + 3,
              timeout_ms |-> 500, queries |-> q, e2e |-> 1, want_v6 |-> FALSE, skip_private |-> FALSE],
     expect |-> Expected(v, n, port, silent, first)]

Ports(v) == IF v[1] = "tcp" THEN {"open", "closed", "nosack"} ELSE {"closed"}
All == UNION { UNION {
          { Lab(v, n, p, {}, 1, 1, FALSE) : p \in Ports(v) }
          \cup (IF n >= 2 THEN { Lab(v, n, p, {2}, 1, 1, FALSE) : p \in (({"open"} \cap Ports(v)) \cup (IF v[1] # "tcp" THEN {"closed"} ELSE {})) } ELSE {})
          \cup (IF n >= 3 THEN { Lab(v, n, CHOOSE p \in Ports(v) : p \in {"open", "closed"}, {2, 3}, 1, 1, FALSE) } ELSE {})
          \cup (IF n >= 2 THEN { Lab(v, n, CHOOSE p \in Ports(v) : p \in {"open", "closed"}, {}, 2, 1, FALSE) } ELSE {})
          \cup { Lab(v, n, CHOOSE p \in Ports(v) : p \in {"open", "closed"}, {}, 1, 3, FALSE) }
          \cup (IF v[2] \in {"", "syn"} THEN { Lab(v, n, CHOOSE p \in Ports(v) : p \in {"open", "closed"}, {}, 1, 1, TRUE) } ELSE {})
        : n \in (IF IOEnv.VT_TIER = "quick" THEN {1, MaxN} ELSE 1..MaxN) } : v \in Variants }
\* IPv6 (ICMPv6 / UDPv6 over the raw IPV6_HDRINCL sink and the AF_PACKET source) and the CLI's --skip-private-hops flag
\* (every lab address is in 10/8 or fd00::/8, so every hop is redacted)
Lab6(proto, n, silent, cli) ==
    [id |-> "C13/" \o proto \o "6/n" \o ToString(n) \o "/s" \o ToJson(silent) \o (IF cli THEN "/cli" ELSE ""),
     label |-> proto \o "6/n" \o ToString(n) \o (IF silent = {} THEN "" ELSE "/silent") \o (IF cli THEN "/cli" ELSE ""),
     kind |-> "lab", n |-> n, port |-> "closed", silent |-> SetToSeq(silent), cli |-> cli, v6 |-> TRUE, skip |-> FALSE,
     req |-> [hostname |-> DestAddr6(n), port |-> 33434, protocol |-> proto, tcp_method |-> "", min_ttl |-> 1, max_ttl |-> n + 3,
              timeout_ms |-> 500, queries |-> 1, e2e |-> 1, want_v6 |-> TRUE, skip_private |-> FALSE],
     expect |-> [ok |-> TRUE, notsupported |-> FALSE,
                 hops |-> [k \in 1..(n + 1) |-> IF k = n + 1 THEN [ttl |-> k, addr |-> DestAddr6(n), dest |-> TRUE]
                                                ELSE [ttl |-> k, addr |-> IF k \in silent THEN "" ELSE RouterAddr6(k), dest |-> FALSE]]]]
LabSkip(proto, n, cli) ==
    [id |-> "C13/" \o proto \o "/n" \o ToString(n) \o "/skip_private" \o (IF cli THEN "/cli" ELSE ""),
     label |-> proto \o "/n" \o ToString(n) \o "/skip_private" \o (IF cli THEN "/cli" ELSE ""),
     kind |-> "lab", n |-> n, port |-> "closed", silent |-> <<>>, cli |-> cli, v6 |-> FALSE, skip |-> TRUE,
     req |-> [hostname |-> DestAddr(n), port |-> 33434, protocol |-> proto, tcp_method |-> "", min_ttl |-> 1, max_ttl |-> n + 3,
              timeout_ms |-> 500, queries |-> 1, e2e |-> 1, want_v6 |-> FALSE, skip_private |-> TRUE],
     expect |-> [ok |-> TRUE, notsupported |-> FALSE, hops |-> [k \in 1..(n + 1) |-> [ttl |-> k, addr |-> "", dest |-> FALSE]]]]
Extra == ({ Lab6(p, n, s, c) : p \in {"icmp", "udp"}, n \in {1, MaxN}, s \in {{}, {2}}, c \in BOOLEAN } \ { Lab6(p, 1, {2}, c) : p \in {"icmp", "udp"}, c \in BOOLEAN })
         \cup { LabSkip(p, MaxN, c) : p \in {"icmp", "udp"}, c \in BOOLEAN }
---------------------------------------------------------------------------
(* S02 (extra, not a listed property): the command line surface (cmd/root.go). A flag set maps to request parameters   *)
(* with the published defaults; what the printed document shows of them (protocol, destination port, number of runs,  *)
(* number of end-to-end probes, length of an unanswered path = max TTL) is compared as spec drift.                    *)
CliDefaults == [proto |-> "udp", port |-> 33434, q |-> 3, e2e |-> 50, m |-> 30, timeout |-> 3000]
Eff(f) == [k \in DOMAIN CliDefaults |-> IF k \in DOMAIN f THEN f[k] ELSE CliDefaults[k]]
ShortName == [proto |-> "-P", port |-> "-p", q |-> "-q", e2e |-> "-Q", m |-> "-m", timeout |-> "--timeout"]
LongName == [proto |-> "--proto", port |-> "--port", q |-> "--traceroute-queries", e2e |-> "--e2e-queries", m |-> "--max-ttl", timeout |-> "--timeout"]
Order == <<"proto", "port", "q", "e2e", "m", "timeout">>
RECURSIVE ArgsFrom(_, _, _)
ArgsFrom(f, long, i) ==
    IF i > Len(Order) THEN <<>>
    ELSE (IF Order[i] \in DOMAIN f
          THEN <<(IF long THEN LongName ELSE ShortName)[Order[i]], IF Order[i] = "proto" THEN f.proto ELSE ToString(f[Order[i]])>>
          ELSE <<>>) \o ArgsFrom(f, long, i + 1)
CliScen(name, f, long, target, extra) ==
    LET e == Eff(f)
        valid == e.proto \in {"udp", "tcp", "icmp"} /\ extra = <<>>
        host == IF target = "dest" THEN DestAddr(1) ELSE "10.101.0.77"
    IN [id |-> "S02/cli/" \o name \o (IF long THEN "/long" ELSE "/short"), label |-> "cli/" \o name, kind |-> "labcli", n |-> 1, silent |-> <<>>, port |-> "closed",
        args |-> ArgsFrom(f, long, 1) \o extra \o (IF name = "no_target" THEN <<>> ELSE <<host>>),
        expect_cli |-> [ok |-> valid /\ name # "no_target", protocol |-> e.proto, dport |-> IF e.proto = "icmp" THEN 0 ELSE e.port,
                        runs |-> e.q, e2e |-> e.e2e, hoplen |-> IF target = "dest" THEN 2 ELSE e.m, dst |-> host]]
CliAll == { CliScen("defaults", [timeout |-> 400], FALSE, "dest", <<>>) }
          \cup { CliScen(nm[1], nm[2], l, nm[3], <<>>) : l \in BOOLEAN,
                  nm \in { <<"icmp_q1_Q2", [proto |-> "icmp", q |-> 1, e2e |-> 2, timeout |-> 400], "dest">>,
                           <<"tcp_p443_q2_Q1", [proto |-> "tcp", port |-> 443, q |-> 2, e2e |-> 1, timeout |-> 400], "dest">>,
                           <<"udp_p53", [port |-> 53, q |-> 1, e2e |-> 0, timeout |-> 400], "dest">>,
                           <<"m5_hole", [m |-> 5, q |-> 1, e2e |-> 0, timeout |-> 300], "hole">>,
                           <<"default_m_hole", [q |-> 1, e2e |-> 0, timeout |-> 300], "hole">>,
                           <<"icmp_m7_hole", [proto |-> "icmp", m |-> 7, q |-> 2, e2e |-> 0, timeout |-> 300], "hole">>,
                           <<"sctp", [proto |-> "sctp", q |-> 1, e2e |-> 0], "dest">> } }
          \cup { CliScen("no_target", [q |-> 1], FALSE, "dest", <<>>), CliScen("unknown_flag", [q |-> 1], FALSE, "dest", <<"--no-such-flag">>) }
---------------------------------------------------------------------------
(* More of the kernel's behaviour.                                                                                     *)
\* a router that REJECTS forwarded UDP (iptables -j REJECT: port-unreachable from the router, after its own TTL check): hop k is the
\* router's time-exceeded, every later TTL gets the router's port-unreachable - a hop of that router, never the destination
LabReject(n, k, cli) ==
    [id |-> "C13/udp/n" \o ToString(n) \o "/reject" \o ToString(k) \o (IF cli THEN "/cli" ELSE ""), label |-> "udp/n" \o ToString(n) \o "/rejecting_router" \o (IF cli THEN "/cli" ELSE ""),
     kind |-> "lab", n |-> n, port |-> "closed", silent |-> <<>>, cli |-> cli, v6 |-> FALSE, skip |-> FALSE, reject |-> k, noise |-> "",
     req |-> [hostname |-> DestAddr(n), port |-> 33434, protocol |-> "udp", tcp_method |-> "", min_ttl |-> 1, max_ttl |-> n + 3,
              timeout_ms |-> 500, queries |-> 1, e2e |-> 0, want_v6 |-> FALSE, skip_private |-> FALSE],
     expect |-> [ok |-> TRUE, notsupported |-> FALSE,
                 hops |-> [t \in 1..(n + 3) |-> [ttl |-> t, addr |-> RouterAddr(IF t < k THEN t ELSE k), dest |-> FALSE]]]]
\* unrelated large ICMP traffic (1 400-byte echo requests and replies) crosses the tracer while it runs: same result
LabNoise(v, n, cli) ==
    [Lab(v, n, "closed", {}, 1, 1, cli) EXCEPT !.id = @ \o "/bigping", !.label = @ \o "/large_unrelated_icmp"] @@ [noise |-> "bigping", reject |-> 0]
\* padded minimum-size frames whose IPv4 total length is 0 keep arriving on the tracer's interface while it runs: skipped, same result
LabTso0(v, n, cli) ==
    [Lab(v, n, "closed", {}, 1, 1, cli) EXCEPT !.id = @ \o "/tso0", !.label = @ \o "/padded_frames_with_total_length_0"] @@ [noise |-> "tso0", reject |-> 0]
\* a multi-homed tracer: the answers come back over another interface than the one the probes left through
LabAsym(v, n, cli) ==
    \* (router 1 answers from the address of the interface its answer leaves through: the second link's 10.99.0.2)
    [Lab(v, n, IF v[1] = "tcp" THEN "open" ELSE "closed", {}, 1, 1, cli) EXCEPT !.id = @ \o "/asym", !.label = @ \o "/asymmetric_return_path",
                                                                              !.expect.hops[1].addr = "10.99.0.2"] @@ [noise |-> "", reject |-> 0, asym |-> TRUE]
\* many concurrent runs, many times: every run installs its own capture filter (thorough tier: the attach path of the real sockets)
LabRepeat(v, n, k) ==
    [Lab(v, n, "open", {}, 1, 8, TRUE) EXCEPT !.id = @ \o "/repeat" \o ToString(k), !.label = @ \o "/eight_concurrent_runs_repeated", !.req.e2e = 0] @@ [noise |-> "", reject |-> 0, repeat |-> k]
\* the tracer is RENUMBERED (10.100.0.1 -> 10.100.0.3) between two identical requests served by one process: the second answer is
\* that of a fresh process (nothing about the old address survives)
LabRenumber(v, n) ==
    [Lab(v, n, IF v[1] = "tcp" THEN "open" ELSE "closed", {}, 1, 1, FALSE) EXCEPT !.id = @ \o "/renumbered", !.label = @ \o "/tracer_renumbered_between_requests"]
    @@ [noise |-> "", reject |-> 0, renumber |-> TRUE]
\* a long-lived process: the 65536-th ICMP run of a process gets echo id 0, and so does the 131072-th (the kernel replaces an IP
\* identification of 0 on header-included raw packets, so routers quote the kernel's choice): the hops are the same as ever
LabEchoWrap(n, base) ==
    [Lab(<<"icmp", "">>, n, "closed", {}, 1, 1, FALSE) EXCEPT !.id = @ \o "/echo_id_after_" \o ToString(base), !.label = @ \o "/echo_id_wraps_to_0",
                                                          !.req = [@ EXCEPT !.e2e = 0] @@ [echo_base |-> base]] @@ [noise |-> "", reject |-> 0]
MoreC13 == { LabTso0(v, 2, c) : v \in {<<"icmp", "">>, <<"udp", "">>}, c \in BOOLEAN } \cup { LabEchoWrap(2, 65535), LabEchoWrap(2, 131071), LabEchoWrap(2, 65534) } \cup { LabRenumber(v, 2) : v \in {<<"icmp", "">>, <<"udp", "">>, <<"tcp", "syn">>} } \cup { LabAsym(v, 2, c) : v \in {<<"icmp", "">>, <<"udp", "">>, <<"tcp", "syn">>}, c \in BOOLEAN }
           \cup (IF IOEnv.VT_TIER = "quick" THEN {} ELSE { LabRepeat(<<"tcp", "syn">>, 1, 40) })
           \cup { LabReject(n, k, c) : n \in {2, MaxN}, k \in {1, 2}, c \in BOOLEAN } \cup { LabNoise(v, 2, c) : v \in {<<"icmp", "">>, <<"udp", "">>, <<"tcp", "syn">>}, c \in BOOLEAN }

\* C08 on the real kernel: a target that silently drops the SYN (the black hole behind the last router). The SACK attempt is bounded by the
\* handshake timeout (= the request timeout); prefer_sack then runs the SYN trace (n + 3 silent TTLs, one timeout each)
LabHole(m, n) ==
    [id |-> "C08/lab/" \o m \o "/n" \o ToString(n) \o "/blackholed_target", label |-> "tcp" \o m \o "/blackholed_target", kind |-> "lab", n |-> n, port |-> "closed",
     silent |-> <<>>, cli |-> FALSE, v6 |-> FALSE, skip |-> FALSE, reject |-> 0, noise |-> "",
     req |-> [hostname |-> "10." \o ToString(100 + n) \o ".0.77", port |-> 443, protocol |-> "tcp", tcp_method |-> m, min_ttl |-> 1, max_ttl |-> n + 3,
              timeout_ms |-> 500, queries |-> 1, e2e |-> 0, want_v6 |-> FALSE, skip_private |-> FALSE],
     bound_ms |-> IF m = "sack" THEN 500 + 1500 ELSE 500 + (n + 3) * 500 + 1500,
     expect |-> [ok |-> (m = "prefer_sack"), notsupported |-> (m = "sack"), hops |-> <<>>]]
\* the tracer's own kernel refuses to send the probes (a local output filter: sendto fails with EPERM): the run FAILS, at once
LabOutDrop(v) ==
    [id |-> "C08/lab/" \o v[1] \o v[2] \o "/output_filtered", label |-> v[1] \o v[2] \o "/send_refused_locally", kind |-> "lab", n |-> 1, port |-> "closed",
     silent |-> <<>>, cli |-> FALSE, v6 |-> FALSE, skip |-> FALSE, reject |-> 0, noise |-> "", outdrop |-> DestAddr(1),
     req |-> [hostname |-> DestAddr(1), port |-> 443, protocol |-> v[1], tcp_method |-> v[2], min_ttl |-> 1, max_ttl |-> 4,
              timeout_ms |-> 500, queries |-> 1, e2e |-> 0, want_v6 |-> FALSE, skip_private |-> FALSE],
     bound_ms |-> 2500, expect |-> [ok |-> FALSE, notsupported |-> FALSE, hops |-> <<>>]]
C08Lab == { LabHole(m, n) : m \in {"sack", "prefer_sack"}, n \in {1, 2} } \cup { LabOutDrop(v) : v \in {<<"udp", "">>, <<"icmp", "">>, <<"tcp", "syn">>} }

\* C17 on the real kernel (every lab address is private: 10/8, fd00::/8): with skipping on every hop is redacted - over IPv4, over
\* IPv6 (unique local addresses), through the library and through the command line, and whatever other flags accompany it
\* (--ipv6 next to an IPv4 literal only steers name resolution)
LabSkip6(proto, n, cli) ==
    [Lab6(proto, n, {}, cli) EXCEPT !.id = "C17/lab/" \o proto \o "6/n" \o ToString(n) \o (IF cli THEN "/cli" ELSE ""),
                                    !.label = proto \o "6/skip_private/unique_local" \o (IF cli THEN "/cli" ELSE ""),
                                    !.skip = TRUE, !.req.skip_private = TRUE,
                                    !.expect.hops = [k \in 1..(n + 1) |-> [ttl |-> k, addr |-> "", dest |-> FALSE]]]
LabSkipFlag6(proto, n, cli) ==
    [LabSkip(proto, n, cli) EXCEPT !.id = "C17/lab/" \o proto \o "/n" \o ToString(n) \o "/ipv6_flag" \o (IF cli THEN "/cli" ELSE ""),
                                   !.label = proto \o "/skip_private/with_ipv6_flag" \o (IF cli THEN "/cli" ELSE ""), !.req.want_v6 = TRUE]
C17Lab == { LabSkip6(p, 2, c) : p \in {"icmp", "udp"}, c \in BOOLEAN } \cup { LabSkipFlag6(p, 2, c) : p \in {"icmp", "udp"}, c \in BOOLEAN }
          \cup { [LabSkip(p, 2, c) EXCEPT !.id = "C17/lab/" \o p \o "/n2" \o (IF c THEN "/cli" ELSE "")] : p \in {"icmp", "udp"}, c \in BOOLEAN }

\* C15 through the real HTTP server binary (server.Start: its own listener and http.Server): a request whose queries all succeed is
\* answered with exactly the requested runs and samples - also when pacing the end-to-end probes (1 s apart with the default
\* timeout and TTL range) makes the request take longer than a minute
LabSrv(proto, q, e) ==
    [id |-> "C15/srv/" \o proto \o "/q" \o ToString(q) \o "/e" \o ToString(e), label |-> "server_binary/" \o proto \o (IF e > 55 THEN "/longer_than_a_minute" ELSE "/short"),
     kind |-> "labsrv", n |-> 1, port |-> "closed", silent |-> <<>>, cli |-> TRUE, v6 |-> FALSE, skip |-> FALSE, reject |-> 0, noise |-> "",
     req |-> [hostname |-> DestAddr(1), port |-> 33434, protocol |-> proto, tcp_method |-> "", min_ttl |-> 1, max_ttl |-> 30,
              timeout_ms |-> 3000, queries |-> q, e2e |-> e, want_v6 |-> FALSE, skip_private |-> FALSE],
     expect |-> [ok |-> TRUE, notsupported |-> FALSE,
                 hops |-> [k \in 1..2 |-> IF k = 2 THEN [ttl |-> k, addr |-> DestAddr(1), dest |-> TRUE] ELSE [ttl |-> k, addr |-> RouterAddr(k), dest |-> FALSE]]]]
C15Lab == { LabSrv("udp", 2, 63), LabSrv("icmp", 1, 2) }

\* C12 on the real capture path (AF_PACKET socket + attached classic-BPF program + drain): with the filters the code installs the
\* answers of every family still arrive - ICMPv4, ICMPv6, the TCP tuple filter with its ICMP branch, the SYN-ACK filter of the handshake
Re(x, i) == [x EXCEPT !.id = "C12/lab/" \o ToString(i), !.label = "real_capture_path/" \o @]
\* C02 on the real kernel: what only real sockets show - identifiers the kernel rewrites, answers entering on another interface
C02Lab == { [x EXCEPT !.id = "C02/lab/" \o @] : x \in { LabEchoWrap(2, 65535), LabEchoWrap(1, 131071), LabAsym(<<"udp", "">>, 2, FALSE), LabAsym(<<"icmp", "">>, 2, FALSE) } }
\* C09 on the real capture path: what the capture handle hands the parser (padding, offload conventions) is below the simulated wire
C09Lab == { [x EXCEPT !.id = "C09/lab/" \o @] : x \in { LabTso0(<<"icmp", "">>, 2, FALSE), LabTso0(<<"udp", "">>, 1, FALSE), LabNoise(<<"icmp", "">>, 2, FALSE) } }
C12Lab == { Re(Lab6("icmp", 1, {}, FALSE), 1), Re(Lab6("udp", 2, {}, FALSE), 2), Re(Lab(<<"udp", "">>, 2, "closed", {}, 1, 1, FALSE), 3),
            Re(Lab(<<"icmp", "">>, 1, "closed", {}, 1, 1, FALSE), 4), Re(Lab(<<"tcp", "syn">>, 2, "open", {}, 1, 1, FALSE), 5),
            Re(Lab(<<"tcp", "sack">>, 2, "open", {}, 1, 1, FALSE), 6),
            \* a multi-homed tracer whose answers come back over another interface than the probes left through
            Re(LabAsym(<<"tcp", "syn">>, 2, FALSE), 7), Re(LabAsym(<<"udp", "">>, 2, FALSE), 8), Re(LabAsym(<<"tcp", "sack">>, 2, FALSE), 9) }

LabGen == IF "VT_GEN" \in DOMAIN IOEnv THEN IOEnv.VT_GEN ELSE "C13"
LabCases == IF LabGen = "C08" THEN C08Lab ELSE IF LabGen = "C09" THEN C09Lab ELSE IF LabGen = "C02" THEN C02Lab ELSE IF LabGen = "C12" THEN C12Lab ELSE IF LabGen = "C15" THEN C15Lab ELSE IF LabGen = "C17" THEN C17Lab ELSE All \cup Extra \cup CliAll \cup MoreC13
ASSUME ndJsonSerialize(IOEnv.VT_OUT, SetToSeq(LabCases)) /\ PrintT(<<"GEN", LabGen, Cardinality(LabCases), Cardinality(LabCases)>>)
VARIABLE x
Init == x = 0
Next == UNCHANGED x
=============================================================================
