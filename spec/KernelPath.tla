----------------------------- MODULE KernelPath -----------------------------
(***************************************************************************)
(* C13: the expected document for a real Linux path built from kernel      *)
(* routers (network namespaces joined by veth pairs, ip_forward = 1).      *)
(* Hop k (1..n) is router k, which answers with the address of its         *)
(* interface facing the tracer (10.<100+k-1>.0.2) unless its ICMP          *)
(* generation is suppressed; hop n+1 is the destination 10.<100+n>.0.2.    *)
(* What the destination answers depends on the variant and on its port:    *)
(*   icmp: echo reply;  udp: port unreachable;                             *)
(*   tcp syn: SYN-ACK (open) or RST (closed);                              *)
(*   tcp sack: selective ACKs if the port is open and SACK enabled, else   *)
(*             NotSupportedError;  prefer_sack: SACK, else the SYN path.   *)
(***************************************************************************)
EXTENDS Integers, Sequences, FiniteSets, TLC, Json, IOUtils, Randomization, SequencesExt

MaxN == atoi(IOEnv.VT_N)
Variants == {<<"icmp", "">>, <<"udp", "">>, <<"tcp", "syn">>, <<"tcp", "sack">>, <<"tcp", "prefer_sack">>}
RouterAddr(k) == "10." \o ToString(100 + k - 1) \o ".0.2"
DestAddr(n) == "10." \o ToString(100 + n) \o ".0.2"
\* the same links carry IPv6: fd00:<100+k>::1 / ::2
RouterAddr6(k) == "fd00:" \o ToString(100 + k - 1) \o "::2"
DestAddr6(n) == "fd00:" \o ToString(100 + n) \o "::2"

Expected(v, n, port, silent, first) ==
    LET fails == v[2] = "sack" /\ port # "open"
        hops == [k \in 1..(n + 1 - first + 1) |->
                   LET t == first + k - 1 IN
                   IF t = n + 1 THEN [ttl |-> t, addr |-> DestAddr(n), dest |-> TRUE]
                   ELSE [ttl |-> t, addr |-> IF t \in silent THEN "" ELSE RouterAddr(t), dest |-> FALSE]]
    IN [ok |-> ~fails, notsupported |-> fails, hops |-> IF fails THEN <<>> ELSE hops]

Lab(v, n, port, silent, first, q, cli) ==
    [id |-> "C13/" \o v[1] \o v[2] \o "/n" \o ToString(n) \o "/" \o port \o "/s" \o ToJson(silent) \o "/f" \o ToString(first) \o "/q" \o ToString(q) \o (IF cli THEN "/cli" ELSE ""),
     label |-> v[1] \o v[2] \o "/n" \o ToString(n) \o "/" \o port \o (IF silent = {} THEN "" ELSE "/silent") \o (IF first > 1 THEN "/first" \o ToString(first) ELSE "")
               \o (IF q > 1 THEN "/concurrent" ELSE "") \o (IF cli THEN "/cli" ELSE ""),
     kind |-> "lab", n |-> n, port |-> port, silent |-> SetToSeq(silent), cli |-> cli, v6 |-> FALSE, skip |-> FALSE,
     req |-> [hostname |-> DestAddr(n), port |-> 443, protocol |-> v[1], tcp_method |-> v[2], min_ttl |-> first, max_ttl |-> n + 3,
              timeout_ms |-> 500, queries |-> q, e2e |-> 1, want_v6 |-> FALSE, skip_private |-> FALSE],
     expect |-> Expected(v, n, port, silent, first)]

Ports(v) == IF v[1] = "tcp" THEN {"open", "closed", "nosack"} ELSE {"closed"}
All == UNION { UNION {
          { Lab(v, n, p, {}, 1, 1, FALSE) : p \in Ports(v) }
          \cup (IF n >= 2 THEN { Lab(v, n, p, {2}, 1, 1, FALSE) : p \in (({"open"} \cap Ports(v)) \cup (IF v[1] # "tcp" THEN {"closed"} ELSE {})) } ELSE {})
          \cup (IF n >= 3 THEN { Lab(v, n, CHOOSE p \in Ports(v) : p \in {"open", "closed"}, {2, 3}, 1, 1, FALSE) } ELSE {})
          \cup (IF n >= 2 THEN { Lab(v, n, CHOOSE p \in Ports(v) : p \in {"open", "closed"}, {}, 2, 1, FALSE) } ELSE {})
          \cup { Lab(v, n, CHOOSE p \in Ports(v) : p \in {"open", "closed"}, {}, 1, 3, FALSE) }
          \cup (IF v[2] \in {"", "syn"} THEN { Lab(v, n, CHOOSE p \in Ports(v) : p \in {"open", "closed"}, {}, 1, 1, TRUE) } ELSE {})
        : n \in (IF IOEnv.VT_TIER = "quick" THEN {1, MaxN} ELSE 1..MaxN) } : v \in Variants }
\* IPv6 (ICMPv6 / UDPv6 over the raw IPV6_HDRINCL sink and the AF_PACKET source) and the CLI's --skip-private-hops flag
\* (every lab address is in 10/8 or fd00::/8, so every hop is redacted)
Lab6(proto, n, silent, cli) ==
    [id |-> "C13/" \o proto \o "6/n" \o ToString(n) \o "/s" \o ToJson(silent) \o (IF cli THEN "/cli" ELSE ""),
     label |-> proto \o "6/n" \o ToString(n) \o (IF silent = {} THEN "" ELSE "/silent") \o (IF cli THEN "/cli" ELSE ""),
     kind |-> "lab", n |-> n, port |-> "closed", silent |-> SetToSeq(silent), cli |-> cli, v6 |-> TRUE, skip |-> FALSE,
     req |-> [hostname |-> DestAddr6(n), port |-> 33434, protocol |-> proto, tcp_method |-> "", min_ttl |-> 1, max_ttl |-> n + 3,
              timeout_ms |-> 500, queries |-> 1, e2e |-> 1, want_v6 |-> TRUE, skip_private |-> FALSE],
     expect |-> [ok |-> TRUE, notsupported |-> FALSE,
                 hops |-> [k \in 1..(n + 1) |-> IF k = n + 1 THEN [ttl |-> k, addr |-> DestAddr6(n), dest |-> TRUE]
                                                ELSE [ttl |-> k, addr |-> IF k \in silent THEN "" ELSE RouterAddr6(k), dest |-> FALSE]]]]
LabSkip(proto, n, cli) ==
    [id |-> "C13/" \o proto \o "/n" \o ToString(n) \o "/skip_private" \o (IF cli THEN "/cli" ELSE ""),
     label |-> proto \o "/n" \o ToString(n) \o "/skip_private" \o (IF cli THEN "/cli" ELSE ""),
     kind |-> "lab", n |-> n, port |-> "closed", silent |-> <<>>, cli |-> cli, v6 |-> FALSE, skip |-> TRUE,
     req |-> [hostname |-> DestAddr(n), port |-> 33434, protocol |-> proto, tcp_method |-> "", min_ttl |-> 1, max_ttl |-> n + 3,
              timeout_ms |-> 500, queries |-> 1, e2e |-> 1, want_v6 |-> FALSE, skip_private |-> TRUE],
     expect |-> [ok |-> TRUE, notsupported |-> FALSE, hops |-> [k \in 1..(n + 1) |-> [ttl |-> k, addr |-> "", dest |-> FALSE]]]]
Extra == ({ Lab6(p, n, s, c) : p \in {"icmp", "udp"}, n \in {1, MaxN}, s \in {{}, {2}}, c \in BOOLEAN } \ { Lab6(p, 1, {2}, c) : p \in {"icmp", "udp"}, c \in BOOLEAN })
         \cup { LabSkip(p, MaxN, c) : p \in {"icmp", "udp"}, c \in BOOLEAN }
ASSUME ndJsonSerialize(IOEnv.VT_OUT, SetToSeq(All \cup Extra)) /\ PrintT(<<"GEN", "C13", Cardinality(All \cup Extra), Cardinality(All \cup Extra)>>)
VARIABLE x
Init == x = 0
Next == UNCHANGED x
=============================================================================
