SPECIFICATION Spec
CONSTANTS
  GuardSack = TRUE
  Driver = "sack"
INVARIANT C14_NoRace
CHECK_DEADLOCK FALSE
