SPECIFICATION Spec
CONSTANTS
  Narrow8 = TRUE
  AnyEchoSrc = FALSE
INVARIANTS C01_Design
CHECK_DEADLOCK FALSE
