------------------------------- MODULE Multi -------------------------------
(***************************************************************************)
(* traceroute.runTracerouteMulti (traceroute/traceroute.go): N traceroute  *)
(* goroutines, M end-to-end goroutines (spawned by the caller with a sleep *)
(* between them), an optional public-IP goroutine, accumulators guarded by *)
(* one mutex, wg.Wait, then errors.Join / result.                          *)
(* Each query goroutine: run (environment decides ok/fail) -> Lock ->      *)
(* append to results or multiErr (e2e: also a 0 sample on failure) ->      *)
(* Unlock -> done.                                                         *)
(* AtomicAppend = FALSE models the accumulators WITHOUT the mutex (read,   *)
(* then write): TLC then finds the lost-update counterexample.             *)
(***************************************************************************)
EXTENDS Integers, Sequences, FiniteSets, TLC

CONSTANTS N, M, WithPub, AtomicAppend

Runs == {<<"run", i>> : i \in 1..N}
E2Es == {<<"e2e", i>> : i \in 1..M}
Pub  == IF WithPub THEN {<<"pub", 1>>} ELSE {}
Free == <<"free", 0>>
Procs == Runs \cup E2Es \cup Pub

VARIABLES pc, fate, spawned, mu, tmp, runs, rtts, errs, pubip, out
vars == <<pc, fate, spawned, mu, tmp, runs, rtts, errs, pubip, out>>

Init == /\ pc = [p \in Procs |-> "idle"]
        /\ fate \in [Procs -> {"ok", "fail"}]          \* which queries fail: every subset
        /\ spawned = Runs                               \* run goroutines are started first
        /\ mu = Free /\ tmp = [p \in Procs |-> <<>>]
        /\ runs = <<>> /\ rtts = <<>> /\ errs = <<>> /\ pubip = "" /\ out = [set |-> FALSE]

\* the caller's loop spawns e2e goroutines one by one (time.Sleep between), then the public-IP goroutine
Spawn == /\ ~out.set /\ \E p \in (E2Es \cup Pub) \ spawned :
              /\ (p[1] = "e2e" => \A q \in E2Es : q[2] < p[2] => q \in spawned)
              /\ (p[1] = "pub" => E2Es \subseteq spawned)
              /\ spawned' = spawned \cup {p}
         /\ UNCHANGED <<pc, fate, mu, tmp, runs, rtts, errs, pubip, out>>

Start(p) == /\ p \in spawned /\ pc[p] = "idle" /\ pc' = [pc EXCEPT ![p] = "ran"]
            /\ UNCHANGED <<fate, spawned, mu, tmp, runs, rtts, errs, pubip, out>>

\* public-IP goroutine: an error is only logged
PubStep(p) == /\ p[1] = "pub" /\ pc[p] = "ran"
              /\ IF fate[p] = "fail" THEN pc' = [pc EXCEPT ![p] = "done"] /\ UNCHANGED <<mu, pubip>>
                 ELSE mu = Free /\ pubip' = "ip" /\ pc' = [pc EXCEPT ![p] = "done"] /\ UNCHANGED mu
              /\ UNCHANGED <<fate, spawned, tmp, runs, rtts, errs, out>>

Lock(p) == /\ p[1] # "pub" /\ pc[p] = "ran" /\ (AtomicAppend => mu = Free)
           /\ mu' = IF AtomicAppend THEN p ELSE mu
           /\ tmp' = [tmp EXCEPT ![p] = <<runs, rtts, errs>>]     \* what a non-atomic append would read
           /\ pc' = [pc EXCEPT ![p] = "locked"]
           /\ UNCHANGED <<fate, spawned, runs, rtts, errs, pubip, out>>

DoAppend(p) ==
    /\ pc[p] = "locked"
    /\ LET r0 == IF AtomicAppend THEN runs ELSE tmp[p][1]
           t0 == IF AtomicAppend THEN rtts ELSE tmp[p][2]
           e0 == IF AtomicAppend THEN errs ELSE tmp[p][3]
       IN IF fate[p] = "fail"
          THEN /\ errs' = Append(e0, p) /\ (IF p[1] = "e2e" THEN rtts' = Append(t0, 0) ELSE UNCHANGED rtts) /\ UNCHANGED runs
          ELSE IF p[1] = "run" THEN runs' = Append(r0, p) /\ UNCHANGED <<rtts, errs>>
               ELSE rtts' = Append(t0, p[2]) /\ UNCHANGED <<runs, errs>>
    /\ mu' = Free /\ pc' = [pc EXCEPT ![p] = "done"]
    /\ UNCHANGED <<fate, spawned, tmp, pubip, out>>

\* wg.Wait() returns when every spawned goroutine is done and the spawn loop is over
Wait == /\ ~out.set /\ spawned = Procs /\ \A p \in Procs : pc[p] = "done"
        /\ out' = IF Len(errs) > 0 THEN [set |-> TRUE, ok |-> FALSE, errs |-> {errs[i] : i \in DOMAIN errs}, runs |-> <<>>, rtts |-> <<>>, pub |-> ""]
                  ELSE [set |-> TRUE, ok |-> TRUE, errs |-> {}, runs |-> runs, rtts |-> rtts, pub |-> pubip]
        /\ UNCHANGED <<pc, fate, spawned, mu, tmp, runs, rtts, errs, pubip>>

Next == Spawn \/ Wait \/ \E p \in Procs : Start(p) \/ PubStep(p) \/ Lock(p) \/ DoAppend(p)
Spec == Init /\ [][Next]_vars /\ WF_vars(Next)

Failing == {p \in Runs \cup E2Es : fate[p] = "fail"}
\* C15
C15_AllOrError ==
    out.set =>
      /\ (out.ok <=> Failing = {})                                  \* public-IP failure never fails the request
      /\ out.ok => /\ Len(out.runs) = N /\ Len(out.rtts) = M
                   /\ {out.runs[i] : i \in DOMAIN out.runs} = Runs   \* none lost, none duplicated
                   /\ out.pub = IF WithPub /\ fate[<<"pub", 1>>] = "ok" THEN "ip" ELSE ""
      /\ ~out.ok => out.errs = Failing /\ out.runs = <<>>           \* every individual failure exposed, no result
C15_NoLoss == Len(runs) + Len(errs) + (Len(rtts) - Cardinality({p \in E2Es : pc[p] = "done" /\ fate[p] = "fail"}))
              = Cardinality({p \in Runs \cup E2Es : pc[p] = "done"})
MutexOK == mu = Free \/ pc[mu] = "locked"
Terminates == <>(out.set)
=============================================================================
