------------------------------- MODULE Alloc -------------------------------
(***************************************************************************)
(* The process-wide identifier allocators (C11):                           *)
(*   packets.AllocPacketID(maxTTL): next := curPacketID.Add(m) - m;        *)
(*        returns uint16(next); the run then uses IP-IDs base+ttl, ttl in  *)
(*        1..m (tcp_driver.go getNextPacketIDAndSeqNum)                    *)
(*   icmp.nextEchoID(): uint16(curEchoID.Add(1))                           *)
(* Callers run concurrently.  The 32-bit counter is modelled modulo W, a   *)
(* multiple of 65536 (uint16 truncation of a counter that wraps at any     *)
(* multiple of 65536 behaves identically; TLC integers are 32 bit).        *)
(* Atomic = FALSE splits fetch-and-add into load / store (what a non-      *)
(* atomic allocator would do): TLC finds the overlap.                      *)
(***************************************************************************)
EXTENDS Integers, FiniteSets, TLC

CONSTANTS Callers, Sizes, Bases, Atomic, MaxAllocs
W == 65536 * 4

VARIABLES cur, pc, m, tmp, base, n
vars == <<cur, pc, m, tmp, base, n>>

Init == /\ cur \in Bases
        /\ pc = [c \in Callers |-> "idle"] /\ m \in [Callers -> Sizes]
        /\ tmp = [c \in Callers |-> 0] /\ base = [c \in Callers |-> -1] /\ n = 0

\* atomic fetch-and-add
Add(c) == /\ Atomic /\ pc[c] = "idle"
          /\ cur' = (cur + m[c]) % W
          /\ base' = [base EXCEPT ![c] = cur % 65536]            \* uint16(new - m)
          /\ pc' = [pc EXCEPT ![c] = "live"] /\ n' = n + 1 /\ UNCHANGED <<m, tmp>>
\* non-atomic variant
Load(c)  == ~Atomic /\ pc[c] = "idle" /\ tmp' = [tmp EXCEPT ![c] = cur] /\ pc' = [pc EXCEPT ![c] = "loaded"] /\ UNCHANGED <<cur, m, base, n>>
Store(c) == /\ ~Atomic /\ pc[c] = "loaded"
            /\ cur' = (tmp[c] + m[c]) % W /\ base' = [base EXCEPT ![c] = tmp[c] % 65536]
            /\ pc' = [pc EXCEPT ![c] = "live"] /\ n' = n + 1 /\ UNCHANGED <<m, tmp>>
\* the run ends: its identifiers are no longer live; the caller may allocate again with another size
Release(c) == /\ pc[c] = "live" /\ pc' = [pc EXCEPT ![c] = "idle"] /\ base' = [base EXCEPT ![c] = -1]
              /\ \E s \in Sizes : m' = [m EXCEPT ![c] = s]
              /\ UNCHANGED <<cur, tmp, n>>
Next == \E c \in Callers : Add(c) \/ Load(c) \/ Store(c) \/ Release(c)
Spec == Init /\ [][Next]_vars

Bound == n <= MaxAllocs
Ids(c) == {(base[c] + t) % 65536 : t \in 1..m[c]}
Live == {c \in Callers : pc[c] = "live"}
\* ranges handed to concurrent runs do not overlap while fewer than 65536 identifiers are live
C11_Disjoint == \A a, b \in Live : a # b => Ids(a) \cap Ids(b) = {}
=============================================================================
