------------------------------ MODULE Matcher ------------------------------
(***************************************************************************)
(* The per-driver reply matchers as pure functions over the same packet    *)
(* records ("views") that the trace carries, one operator per driver,      *)
(* following the order of checks in the code:                              *)
(*   icmp/icmp_driver.go  handleProbeLayers                                *)
(*   udp/udp_driver.go    handleProbeLayers                                *)
(*   tcp/tcp_driver.go    handleProbeLayers                                *)
(*   sack/sack_driver.go  handleProbeLayers                                *)
(* A result is [k, ttl, ip, dest, j]:                                      *)
(*   k = "hop"   a ProbeResponse (j = index of the matched probe in sent)  *)
(*       "skip"  ReceiveProbeNoPktError (not ours)                         *)
(*       "bad"   BadPacketError (malformed / not matching an id)           *)
(*       "unsup" sack.NotSupportedError (ends the run)                     *)
(*       "fatal" any other error (ends the run)                            *)
(* sent is the sequence of probe views written so far (in send order).     *)
(*                                                                         *)
(* Narrow8 = TRUE models the code BEFORE commit 740c4dc (echo sequence     *)
(* narrowed to 8 bits before the lookup); AnyEchoSrc = TRUE the code       *)
(* before 993cac0 (echo reply accepted from any address).  TLC finds the   *)
(* C01 / C04 counterexamples on those settings (MatcherMC_bug*.cfg).       *)
(***************************************************************************)
EXTENDS Props

CONSTANTS Narrow8, AnyEchoSrc

Hop(t, ip, dst, j) == [k |-> "hop", ttl |-> t, ip |-> ip, dest |-> dst, j |-> j]
Skip  == [k |-> "skip",  ttl |-> 0, ip |-> "", dest |-> FALSE, j |-> 0]
Bad   == [k |-> "bad",   ttl |-> 0, ip |-> "", dest |-> FALSE, j |-> 0]
Unsup == [k |-> "unsup", ttl |-> 0, ip |-> "", dest |-> FALSE, j |-> 0]
Fatal == [k |-> "fatal", ttl |-> 0, ip |-> "", dest |-> FALSE, j |-> 0]

\* index of the sent probe with TTL t, 0 if none
SentIdx(sent, t) == IF \E j \in DOMAIN sent : sent[j].ipttl = t
                    THEN CHOOSE j \in DOMAIN sent : sent[j].ipttl = t ELSE 0

IsTE(d) == d.kind = "te"
IsTTLExceeded(d) == d.kind = "te" /\ d.icode = 0       \* FrameParser.IsTTLExceeded: type and code
IsDU(d) == d.kind = "du"
\* GetICMPInfo decodes the quoted IP header; ParseXXXFirstBytes needs 8 quoted L4 bytes
QuoteHdrOK(d) == d.q_hdr
Quote8(d) == d.q

---------------------------------------------------------------------------
(* ICMP: par.min/max, local = sent flow's src, echo id = the run's id *)
MatchICMP(par, flow, sent, d) ==
    LET seq16(x) == IF Narrow8 THEN x % 256 ELSE x
        lookup(s16, ip, dst) ==
            IF seq16(s16) < par.min \/ seq16(s16) > par.max THEN Bad
            ELSE IF SentIdx(sent, seq16(s16)) = 0 THEN Bad
            ELSE Hop(seq16(s16), ip, dst, SentIdx(sent, seq16(s16)))
    IN
    CASE IsTE(d) ->
            IF ~QuoteHdrOK(d) THEN Bad
            ELSE IF d.q_dst # flow.dst THEN Skip
            ELSE IF d.q_src # flow.src THEN Skip
            ELSE IF ~Quote8(d) THEN Bad
            ELSE IF ~d.q_echo THEN Bad              \* quoted message is not an echo request
            ELSE IF d.q_eid # flow.eid THEN Bad
            ELSE lookup(d.q_eseq, d.src, FALSE)
      [] d.kind = "echo_rep" ->
            IF ~AnyEchoSrc /\ d.src # flow.dst THEN Skip
            ELSE IF d.eid # flow.eid THEN Bad
            ELSE lookup(d.eseq, d.src, TRUE)
      [] OTHER -> Skip

(* UDP *)
MatchUDP(par, flow, sent, d) ==
    IF ~(d.kind \in {"te", "du"}) THEN Skip
    ELSE IF d.kind = "te" /\ d.icode # 0 THEN Skip
    ELSE IF ~QuoteHdrOK(d) THEN Bad
    ELSE IF ~Quote8(d) THEN Bad
    ELSE IF d.q_dst # flow.dst \/ d.q_dport # flow.dport THEN Skip
    ELSE IF par.strict /\ (d.q_src # flow.src \/ d.q_sport # flow.sport) THEN Skip
    ELSE LET id == IF flow.v = 4 THEN d.q_ipid ELSE IF d.q_proto = 17 THEN d.q_ulen ELSE 0
             J == {j \in DOMAIN sent : (IF flow.v = 4 THEN sent[j].ipid ELSE sent[j].ulen) = id}
         IN IF J = {} THEN Skip
            ELSE LET j == CHOOSE j \in J : TRUE IN Hop(sent[j].ipttl, d.src, d.src = flow.dst, j)

(* TCP SYN *)
MatchSYN(par, flow, sent, d) ==
    CASE d.kind = "tcp" ->
            LET synack == HasFlag(d, SYN) /\ HasFlag(d, ACK)
                rst == HasFlag(d, RST)
            IN IF ~synack /\ ~rst THEN Skip
               ELSE IF d.src # flow.dst \/ d.dst # flow.src THEN Skip
               ELSE IF d.sport # flow.dport THEN Skip
               ELSE IF d.dport # flow.sport THEN Skip
               ELSE IF Len(sent) = 0 THEN Fatal
               ELSE LET last == sent[Len(sent)] IN
                    IF HasFlag(d, ACK) /\ d.ack # Add32(last.seq, 1) THEN Skip   \* synack or rst+ack: ack - 1 must be the last seq
                    ELSE Hop(last.ipttl, d.src, TRUE, Len(sent))
      [] d.kind \in {"te", "du", "icmp_other", "echo_rep", "echo_req"} /\ d.v = 4 ->
            IF ~IsTTLExceeded(d) THEN Skip
            ELSE IF ~QuoteHdrOK(d) THEN Bad
            ELSE IF ~Quote8(d) THEN Bad
            ELSE IF d.q_dst # flow.dst \/ d.q_dport # flow.dport THEN Skip
            ELSE IF par.strict /\ (d.q_src # flow.src \/ d.q_sport # flow.sport) THEN Skip
            ELSE LET J == {j \in DOMAIN sent : sent[j].ipid = d.q_ipid /\ sent[j].seq = d.q_seq}
                 IN IF J = {} THEN Skip
                    ELSE LET j == CHOOSE j \in J : \A j2 \in J : j <= j2 IN Hop(sent[j].ipttl, d.src, FALSE, j)
      [] OTHER -> Skip

(* SACK: isn = local initial sequence (probe seq = isn + ttl) *)
RECURSIVE Sub32Small(_, _, _)
\* relative sequence x - isn if it is in 0..lim, else -1
Sub32Small(x, isn, lim) == IF lim < 0 THEN -1 ELSE IF Add32(isn, lim) = x THEN lim ELSE Sub32Small(x, isn, lim - 1)

MatchSACK(par, flow, sent, d) ==
    LET isn == flow.isn
        byRel(rel, ip, dst) ==
            IF rel < par.min \/ rel > par.max THEN Bad
            ELSE IF SentIdx(sent, rel) = 0 THEN Bad
            ELSE Hop(rel, ip, dst, SentIdx(sent, rel))
    IN
    CASE d.kind = "tcp" ->
            IF d.src # flow.dst \/ d.dst # flow.src THEN Skip
            ELSE IF d.sport # flow.dport \/ d.dport # flow.sport THEN Skip
            ELSE IF HasFlag(d, SYN) \/ HasFlag(d, FIN) \/ HasFlag(d, RST) THEN Skip
            ELSE IF Len(d.sack) = 0 THEN Unsup
            ELSE \* minimum relative left edge (uint32 arithmetic); edges outside 0..255 can only be the minimum
                 \* if every edge is outside, in which case the lookup fails (Bad)
                 LET rels == {Sub32Small(d.sack[i], isn, 255) : i \in DOMAIN d.sack}
                     inr == rels \ {-1}
                 IN IF inr = {} THEN Bad ELSE byRel(Min(inr), d.src, TRUE)
      [] d.kind \in {"te", "du", "icmp_other", "echo_rep", "echo_req"} /\ d.v = 4 ->
            IF ~IsTTLExceeded(d) THEN Skip
            ELSE IF ~QuoteHdrOK(d) THEN Bad
            ELSE IF ~Quote8(d) THEN Bad
            ELSE IF d.q_dst # flow.dst \/ d.q_dport # flow.dport THEN Skip
            ELSE IF par.strict /\ (d.q_src # flow.src \/ d.q_sport # flow.sport) THEN Skip
            ELSE byRel(Sub32Small(d.q_seq, isn, 255), d.src, d.src = flow.dst)
      [] OTHER -> Skip

Match(par, flow, sent, d) ==
    CASE IsICMPv(par.variant) -> MatchICMP(par, flow, sent, d)
      [] IsUDPv(par.variant)  -> MatchUDP(par, flow, sent, d)
      [] IsSYNv(par.variant)  -> MatchSYN(par, flow, sent, d)
      [] IsSACKv(par.variant) -> MatchSACK(par, flow, sent, d)
      [] OTHER -> Skip
=============================================================================
