------------------------------ MODULE AllocApa ------------------------------
(***************************************************************************)
(* Unbounded safety of the IP-ID block allocator (C11) by an inductive     *)
(* invariant, discharged with Apalache (integers and finite sets only).    *)
(* The counter is an unbounded integer here; the implementation's uint32   *)
(* counter and uint16 truncation are injective on any window of 65536      *)
(* consecutive integers, which is the "fewer than 65536 identifiers live"  *)
(* side condition of the property (WindowOK).                              *)
(*   apalache-mc check --init=IndInit --inv=IndInv --length=1 AllocApa.tla *)
(*   apalache-mc check --init=Init    --inv=IndInv --length=0 AllocApa.tla *)
(***************************************************************************)
EXTENDS Integers, FiniteSets, Apalache

VARIABLES
    \* @type: Int;
    cur,
    \* @type: Set({b: Int, m: Int});
    live

Sizes == 1..255

Init == cur = 0 /\ live = {}

\* AllocPacketID(m): atomic fetch-and-add; the run owns base+1 .. base+m
Alloc(m) == /\ live' = live \union {[b |-> cur, m |-> m]}
            /\ cur' = cur + m
\* a run ends
Release(r) == live' = live \ {r} /\ cur' = cur

Next == (\E m \in Sizes : Alloc(m)) \/ (\E r \in live : Release(r))

\* integer intervals (b, b+m] of live runs are pairwise disjoint and lie below the counter
IndInv ==
    /\ cur >= 0
    /\ \A r \in live : r.b >= 0 /\ r.m \in Sizes /\ r.b + r.m <= cur
    /\ \A r1 \in live : \A r2 \in live : (r1 # r2) => (r1.b + r1.m <= r2.b \/ r2.b + r2.m <= r1.b)
\* arbitrary counter value, arbitrary set of up to 5 live runs (Gen): unbounded in the values, bounded in the number of live runs
IndInit == cur = Gen(1) /\ live = Gen(5) /\ IndInv

\* the property: while all live identifiers fit in a window of 65536 consecutive values, their 16-bit truncations are distinct
WindowOK == \A r \in live : cur - r.b <= 65536
Disjoint16 ==
    WindowOK => \A r1 \in live : \A r2 \in live : (r1 # r2) =>
        \A i \in 1..255 : \A j \in 1..255 :
            (i <= r1.m /\ j <= r2.m) => (r1.b + i) % 65536 # (r2.b + j) % 65536
=============================================================================
