------------------------------- MODULE GenDoc -------------------------------
(* Document scenarios for C16 / C17 / C18(a): built from Result.tla's address tables; executed by the harness on a real *)
(* result.Results (Enrich -> Normalize -> Redact -> json.Marshal); the marshalled JSON is what TLC validates.           *)
EXTENDS ResultAlg, Json, IOUtils, Randomization

Gen == IOEnv.VT_GEN
Tier == IOEnv.VT_TIER
NMax == atoi(IOEnv.VT_N)
Hop(a, rtt, dest) == [s |-> a.s, b |-> a.b, rtt |-> rtt, dest |-> dest]
T4 == Addr("198.51.100.9", <<198, 51, 100, 9>>)
DocX(id, label, runs, rtts, enrich, skip, dns, names, real, bound, reprobe, hit) ==
    [id |-> id, label |-> label, kind |-> "doc",
     extra |-> [doc |-> [runs |-> runs, rtts |-> rtts, enrich |-> enrich, skip_private |-> skip, dns |-> dns, names |-> names,
                         realclock |-> real, bound_us |-> bound, reprobe |-> reprobe, hit |-> hit, rtt_div |-> 1, dport |-> 33434, first_ttl |-> 1]]]
Doc(id, label, runs, rtts, enrich, skip, dns, names) == DocX(id, label, runs, rtts, enrich, skip, dns, names, FALSE, 0, FALSE, <<>>)
NoDNS == [x \in {} |-> ""]
NoNames == [x \in {} |-> <<>>]
RunOf(hops) == [dst |-> T4.b, dsts |-> T4.s, hops |-> hops]

\* C16: hop lists over empty / v4 / v6 / mapped addresses x destination flag; RTT sample lists incl. all-zero and single sample; permutations
C16Addrs == {NoAddr, Addr("8.8.8.8", <<8, 8, 8, 8>>), Addr("2001:db8::1", <<32, 1, 13, 184>> \o Z(11) \o <<1>>), Addr("8.8.4.4", Z(10) \o <<255, 255, 8, 8, 4, 4>>)}
C16HopSeqs == UNION {[1..n -> {Hop(a, r, FALSE) : a \in C16Addrs, r \in {0, 3}}] : n \in 1..2} \cup
              {<<Hop(a, 3, FALSE), Hop(NoAddr, 0, FALSE), Hop(T4, 7, TRUE)>> : a \in C16Addrs}
C16Rtts == UNION {[1..n -> {0, 1, 2, 7}] : n \in 0..4}
Str(s) == ToJson(s)
\* end-to-end samples with parts below one microsecond (samples are rtts[i] / 10000 ms): two samples, alternating samples, a sample
\* repeated - the statistics are compared in millionths of a millisecond (Return.fine)
C16FineRtts == {<<123456, 123450>>, <<123450, 123456>>, <<50004, 50009, 50004, 50009>>, <<70001, 70001, 70006>>, <<99995>>, <<10005, 0, 10011>>, <<33333, 33338, 33336>>}
C16Fine == { [Doc("C16/fine/" \o Str(rt), "rtts/sub_microsecond/" \o ToString(Len(rt)), <<RunOf(<<Hop(T4, 7, TRUE)>>)>>, rt, FALSE, FALSE, NoDNS, NoNames)
                EXCEPT !.extra.doc.rtt_div = 10000] : rt \in C16FineRtts }

C16All(u) ==
    { Doc("C16/runs/" \o Str([k \in DOMAIN rs |-> [j \in DOMAIN rs[k] |-> rs[k][j].s]]) \o Str([k \in DOMAIN rs |-> [j \in DOMAIN rs[k] |-> rs[k][j].rtt]]),
          "runs/" \o Str([k \in DOMAIN rs |-> [j \in DOMAIN rs[k] |-> rs[k][j].s]]) \o Str([k \in DOMAIN rs |-> [j \in DOMAIN rs[k] |-> rs[k][j].rtt]]), [k \in DOMAIN rs |-> RunOf(rs[k])], <<1, 0, 7, 2>>, FALSE, FALSE, NoDNS, NoNames)
        : rs \in {<<>>} \cup {<<h>> : h \in C16HopSeqs} \cup {<<h1, h2>> : h1 \in RandomSubset(12, C16HopSeqs), h2 \in RandomSubset(6, C16HopSeqs)} }
    \cup C16Fine
    \* ICMP: the runs have no ports - the published fields are all there, with port 0
    \cup { [Doc("C16/icmp_port0/" \o ToString(n), "runs/icmp_port0", [k \in 1..n |-> RunOf(<<Hop(T4, 7, TRUE)>>)], <<1, 2>>, FALSE, FALSE, NoDNS, NoNames)
                EXCEPT !.extra.doc.dport = 0] : n \in 1..2 }
    \cup { Doc("C16/rtts/" \o Str(rt), "rtts/" \o Str(rt), <<RunOf(<<Hop(T4, 7, TRUE)>>)>>, rt, FALSE, FALSE, NoDNS, NoNames) : rt \in C16Rtts }

\* C17: every private block boundary and its public neighbours, mapped forms, empty hops; with/without enrichment
AddrSeq == SetToSeq(AllAddrs)
C17Doc(k, en, sk, sh) ==
    Doc("C17/" \o (IF en THEN "enrich" ELSE "plain") \o "/" \o (IF sk THEN "skip" ELSE "keep") \o "/" \o ToString(k) \o "/" \o ToString(sh),
          "redact/" \o AddrSeq[k].s \o "/len" \o ToString(Len(AddrSeq[k].b)) \o (IF en THEN "/enrich" ELSE "") \o (IF sk THEN "" ELSE "/keep") \o "/shape" \o ToString(sh),
          IF sh = 1
          THEN <<RunOf(<<Hop(AddrSeq[k], 3, FALSE), Hop(AddrSeq[((k + 4) % Len(AddrSeq)) + 1], 5, FALSE), Hop(NoAddr, 0, FALSE), Hop(T4, 9, TRUE)>>),
                 RunOf(<<Hop(AddrSeq[((k + 9) % Len(AddrSeq)) + 1], 2, TRUE)>>)>>
          ELSE <<RunOf(<<Hop(NoAddr, 0, FALSE), Hop(AddrSeq[k], 3, FALSE), Hop(NoAddr, 0, FALSE), Hop(AddrSeq[((k + 4) % Len(AddrSeq)) + 1], 5, FALSE), Hop(T4, 9, TRUE)>>),
                 RunOf(<<Hop(T4, 1, FALSE), Hop(NoAddr, 0, FALSE), Hop(AddrSeq[((k + 9) % Len(AddrSeq)) + 1], 2, TRUE)>>)>>,
          <<4, 0>>, en, sk,
          [a \in {x.s : x \in AllAddrs} \ {""} |-> "host-" \o a], [a \in {x.s : x \in AllAddrs} \ {""} |-> <<"host-" \o a>>])
C17First == { C17Doc(k, en, TRUE, sh) : k \in {1, 5, 9, 13}, en \in BOOLEAN, sh \in {1, 2} }
C17All(u) ==
    { Doc("C17/" \o (IF en THEN "enrich" ELSE "plain") \o "/" \o (IF sk THEN "skip" ELSE "keep") \o "/" \o ToString(k) \o "/" \o ToString(sh),
          "redact/" \o AddrSeq[k].s \o "/len" \o ToString(Len(AddrSeq[k].b)) \o (IF en THEN "/enrich" ELSE "") \o (IF sk THEN "" ELSE "/keep") \o "/shape" \o ToString(sh),
          \* shape 2: unanswered TTLs BEFORE and BETWEEN the addressed hops
          IF sh = 1
          THEN <<RunOf(<<Hop(AddrSeq[k], 3, FALSE), Hop(AddrSeq[((k + 4) % Len(AddrSeq)) + 1], 5, FALSE), Hop(NoAddr, 0, FALSE), Hop(T4, 9, TRUE)>>),
                 RunOf(<<Hop(AddrSeq[((k + 9) % Len(AddrSeq)) + 1], 2, TRUE)>>)>>
          ELSE <<RunOf(<<Hop(NoAddr, 0, FALSE), Hop(AddrSeq[k], 3, FALSE), Hop(NoAddr, 0, FALSE), Hop(AddrSeq[((k + 4) % Len(AddrSeq)) + 1], 5, FALSE), Hop(T4, 9, TRUE)>>),
                 RunOf(<<Hop(T4, 1, FALSE), Hop(NoAddr, 0, FALSE), Hop(AddrSeq[((k + 9) % Len(AddrSeq)) + 1], 2, TRUE)>>)>>,
          <<4, 0>>, en, sk,
          [a \in {x.s : x \in AllAddrs} \ {""} |-> "host-" \o a], [a \in {x.s : x \in AllAddrs} \ {""} |-> <<"host-" \o a>>])
        : k \in DOMAIN AddrSeq, en \in BOOLEAN, sk \in BOOLEAN, sh \in {1, 2} }
    \* a library caller's run that starts at TTL 3: every hop keeps ITS TTL through redaction, the hop counts are positions
    \cup { [d EXCEPT !.id = @ \o "/first3", !.label = @ \o "/first_ttl3", !.extra.doc.first_ttl = 3] : d \in C17First }

\* C18(a): address multisets (duplicates, empty, mapped) x per-address resolver behaviour (names / empty list / error / slow)
Behaviours == {"names", "two", "empty", "error", "slow", "dot"}
DnsOf(b, a) == CASE b = "dot" -> "fqdn-" \o a \o ".example." [] b = "names" -> "n-" \o a [] b = "two" -> "x-" \o a \o ",y-" \o a [] b = "empty" -> "" [] b = "error" -> "!boom" [] OTHER -> "~"
NamesOf(b, a) == CASE b = "dot" -> <<"fqdn-" \o a \o ".example.">> [] b = "names" -> <<"n-" \o a>> [] b = "two" -> <<"x-" \o a, "y-" \o a>> [] OTHER -> <<>>
E1 == Addr("8.8.8.8", <<8, 8, 8, 8>>)  E2 == Addr("2001:db8::1", <<32, 1, 13, 184>> \o Z(11) \o <<1>>)
E3 == Addr("8.8.4.4", Z(10) \o <<255, 255, 8, 8, 4, 4>>)  E4 == Addr("8.8.4.4", <<8, 8, 4, 4>>)
C18All(u) ==
    { LET dns == [a \in {E1.s, E2.s, E3.s, T4.s} |-> DnsOf(bs[CHOOSE i \in 1..4 : <<E1.s, E2.s, E3.s, T4.s>>[i] = a], a)]
          nm == [a \in {E1.s, E2.s, E3.s, T4.s} |-> NamesOf(bs[CHOOSE i \in 1..4 : <<E1.s, E2.s, E3.s, T4.s>>[i] = a], a)]
      IN Doc("C18/enrich/" \o Str(bs) \o "/" \o ToString(shape), "enrich/" \o bs[1] \o "-" \o bs[2] \o "-" \o bs[3] \o "-" \o bs[4],
             IF shape = 1 THEN <<RunOf(<<Hop(E1, 3, FALSE), Hop(E2, 4, FALSE), Hop(NoAddr, 0, FALSE), Hop(E1, 5, FALSE), Hop(T4, 9, TRUE)>>),
                                 RunOf(<<Hop(E3, 2, FALSE), Hop(E4, 2, FALSE)>>)>>
             ELSE <<RunOf(<<Hop(E3, 3, FALSE)>>), RunOf(<<Hop(E1, 3, FALSE)>>), RunOf(<<Hop(E1, 1, FALSE), Hop(E2, 2, TRUE)>>)>>,
             <<1>>, TRUE, FALSE, dns, nm)
      : bs \in [1..4 -> Behaviours], shape \in {1, 2} }

\* C18(b) through the enrichment stage: the same address looked up twice AT THE SAME TIME (it occurs twice in the document), one lookup
\* answered at once and the other failing a second later; afterwards every scripted address is looked up again: the stored success
\* must be returned without asking the resolver
C18Dup(u) ==
    { LET twice == IF ord = 1 THEN "n-" \o a.s \o ";+1000:!late-failure" ELSE "+1000:!late-failure;n-" \o a.s
          runs == IF a = T4 THEN <<RunOf(<<Hop(E1, 3, FALSE), Hop(T4, 9, TRUE)>>)>>                         \* T4: destination of the run and its last hop
                  ELSE <<RunOf(<<Hop(a, 3, FALSE), Hop(E2, 4, FALSE), Hop(NoAddr, 0, FALSE), Hop(a, 5, FALSE)>>)>>
          other == IF a = T4 THEN E1 ELSE E2
          dns == [x \in {a.s, other.s} \cup (IF a = T4 THEN {} ELSE {T4.s}) |-> IF x = a.s THEN twice ELSE IF x = T4.s THEN "!down" ELSE "n-" \o x]
          nm == [x \in {a.s, other.s} |-> <<"n-" \o x>>]
      IN DocX("C18/dup/" \o a.s \o "/" \o ToString(ord), "enrich/duplicate-concurrent/" \o ToString(Len(a.b)) \o "/" \o ToString(ord), runs, <<1>>, TRUE, FALSE, dns, nm,
              FALSE, 0, TRUE, <<a.s, other.s>>)
      : a \in {E1, E3, T4}, ord \in {1, 2} }

\* C08: stalled resolvers. n distinct addresses whose lookups never answer: the enrichment stage is bounded by ONE lookup timeout (5 s),
\* not by their sum. Real clock (see harness/doc_test.go), bound = 5 s + 2.5 s slack for a loaded machine.
C08All(u) ==
    { LET as == SubSeq(<<E1, E2, E4, Addr("9.9.9.9", <<9, 9, 9, 9>>), Addr("1.1.1.1", <<1, 1, 1, 1>>)>>, 1, n)
          dns == [x \in {as[i].s : i \in 1..n} \cup {T4.s} |-> IF x = T4.s /\ ~all THEN "n-" \o x ELSE "~"]
          nm == IF all THEN NoNames ELSE [x \in {T4.s} |-> <<"n-" \o x>>]
      IN DocX("C08/dnsstall/" \o ToString(n) \o (IF all THEN "/all" ELSE "/butdest"), "dns-stall/" \o ToString(n) \o (IF all THEN "/all" ELSE "/butdest"),
              <<RunOf([i \in 1..n |-> Hop(as[i], i, FALSE)] \o <<Hop(T4, 9, TRUE)>>)>>, <<1>>, TRUE, FALSE, dns, nm, TRUE, 7500000, FALSE, <<>>)
      : n \in {1, 3, 5}, all \in BOOLEAN }

\* documents finished concurrently (the HTTP server shares one Traceroute between requests): identifiers stay pairwise distinct
C16Stress(u) == { [id |-> "C16/concurrent/" \o ToString(g) \o "x" \o ToString(n), label |-> "ids/concurrent/" \o ToString(g), kind |-> "docstress",
                   extra |-> [g |-> g, n |-> n, runs |-> 3]] : g \in {2, 8}, n \in {IF Tier = "quick" THEN 400 ELSE 4000} }
                \cup { [id |-> "C16/wide/" \o ToString(r), label |-> "ids/many_runs/" \o ToString(r), kind |-> "docstress", extra |-> [g |-> 1, n |-> 2, runs |-> r]] : r \in {257, 600} }
\* runs of one document with DIFFERENT destination addresses (a name with several addresses, resolved per run): each destination
\* carries the names of its own address; a failing lookup of one destination leaves only that one empty
RunTo(d, hops) == [dst |-> d.b, dsts |-> d.s, hops |-> hops]
C18Dst(u) ==
    { LET ds == <<E1, E4, T4>>
          dns == [x \in {E1.s, E4.s, T4.s, E2.s} |-> IF x = ds[bad].s THEN "!down" ELSE "n-" \o x]
          nm == [x \in {E1.s, E4.s, T4.s, E2.s} \ {ds[bad].s} |-> <<"n-" \o x>>]
      IN DocX("C18/dst/" \o ToString(bad), "enrich/destinations_differ/" \o ToString(bad),
              <<RunTo(ds[1], <<Hop(E2, 3, FALSE), Hop(ds[1], 9, TRUE)>>), RunTo(ds[2], <<Hop(E2, 3, FALSE), Hop(ds[2], 9, TRUE)>>), RunTo(ds[3], <<Hop(ds[3], 9, TRUE)>>)>>,
              <<1>>, TRUE, FALSE, dns, nm, FALSE, 0, FALSE, <<>>)
      : bad \in 1..3 }
Cases == CASE Gen = "C18dst" -> C18Dst(0) [] Gen = "C16stress" -> C16Stress(0) [] Gen = "C16" -> C16All(0) [] Gen = "C17" -> C17All(0) [] Gen = "C18" -> C18All(0) [] Gen = "C18dup" -> C18Dup(0) [] Gen = "C08" -> C08All(0) [] OTHER -> {}
ASSUME LET c == Cases
           pk == IF NMax > 0 /\ Cardinality(c) > NMax THEN RandomSubset(NMax, c) ELSE c
       IN /\ ndJsonSerialize(IOEnv.VT_OUT, SetToSeq(pk))
          /\ PrintT(<<"GEN", Gen, Cardinality(c), Cardinality(pk)>>)
VARIABLE gx
GInit == gx = 0
GNext == UNCHANGED gx
=============================================================================
