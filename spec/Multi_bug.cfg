SPECIFICATION Spec
CONSTANTS
  N = 3
  M = 2
  WithPub = TRUE
  AtomicAppend = FALSE
INVARIANTS C15_AllOrError C15_NoLoss MutexOK
CHECK_DEADLOCK FALSE
