---- MODULE EngineSerialMC_TTrace_1791206168 ----
EXTENDS Sequences, EngineSerialMC, TLCExt, Toolbox, Naturals, TLC

_expression ==
    LET EngineSerialMC_TEExpression == INSTANCE EngineSerialMC_TEExpression
    IN EngineSerialMC_TEExpression!expression
----

_trace ==
    LET EngineSerialMC_TETrace == INSTANCE EngineSerialMC_TETrace
    IN EngineSerialMC_TETrace!trace
----

_inv ==
    ~(
        TLCGet("level") = Len(_TETrace)
        /\
        ext = (FALSE)
        /\
        acc = (<<>>)
        /\
        cancelAt = (-1)
        /\
        wfired = (FALSE)
        /\
        i = (1)
        /\
        sent = (<<>>)
        /\
        script = (<<<<[ip |-> 0, ttl |-> 0, dest |-> FALSE, delay |-> 0, err |-> "sendfail"]>>, <<>>, <<>>>>)
        /\
        out = ([t |-> 0, err |-> "send", set |-> TRUE, ok |-> FALSE, hops |-> <<>>])
        /\
        inflight = ({})
        /\
        probe = ([k |-> "none"])
        /\
        pc = ("send")
        /\
        wend = (6)
        /\
        now = (0)
        /\
        dend = (2)
        /\
        rdl = (0)
        /\
        results = (<<[k |-> "none"], [k |-> "none"], [k |-> "none"]>>)
        /\
        queue = (<<>>)
    )
----

_init ==
    /\ i = _TETrace[1].i
    /\ out = _TETrace[1].out
    /\ results = _TETrace[1].results
    /\ now = _TETrace[1].now
    /\ pc = _TETrace[1].pc
    /\ script = _TETrace[1].script
    /\ rdl = _TETrace[1].rdl
    /\ ext = _TETrace[1].ext
    /\ inflight = _TETrace[1].inflight
    /\ probe = _TETrace[1].probe
    /\ cancelAt = _TETrace[1].cancelAt
    /\ acc = _TETrace[1].acc
    /\ queue = _TETrace[1].queue
    /\ sent = _TETrace[1].sent
    /\ wend = _TETrace[1].wend
    /\ wfired = _TETrace[1].wfired
    /\ dend = _TETrace[1].dend
----

_next ==
    /\ \E i,j \in DOMAIN _TETrace:
        /\ \/ /\ j = i + 1
              /\ i = TLCGet("level")
        /\ i  = _TETrace[i].i
        /\ i' = _TETrace[j].i
        /\ out  = _TETrace[i].out
        /\ out' = _TETrace[j].out
        /\ results  = _TETrace[i].results
        /\ results' = _TETrace[j].results
        /\ now  = _TETrace[i].now
        /\ now' = _TETrace[j].now
        /\ pc  = _TETrace[i].pc
        /\ pc' = _TETrace[j].pc
        /\ script  = _TETrace[i].script
        /\ script' = _TETrace[j].script
        /\ rdl  = _TETrace[i].rdl
        /\ rdl' = _TETrace[j].rdl
        /\ ext  = _TETrace[i].ext
        /\ ext' = _TETrace[j].ext
        /\ inflight  = _TETrace[i].inflight
        /\ inflight' = _TETrace[j].inflight
        /\ probe  = _TETrace[i].probe
        /\ probe' = _TETrace[j].probe
        /\ cancelAt  = _TETrace[i].cancelAt
        /\ cancelAt' = _TETrace[j].cancelAt
        /\ acc  = _TETrace[i].acc
        /\ acc' = _TETrace[j].acc
        /\ queue  = _TETrace[i].queue
        /\ queue' = _TETrace[j].queue
        /\ sent  = _TETrace[i].sent
        /\ sent' = _TETrace[j].sent
        /\ wend  = _TETrace[i].wend
        /\ wend' = _TETrace[j].wend
        /\ wfired  = _TETrace[i].wfired
        /\ wfired' = _TETrace[j].wfired
        /\ dend  = _TETrace[i].dend
        /\ dend' = _TETrace[j].dend

\* Uncomment the ASSUME below to write the states of the error trace
\* to the given file in Json format. Note that you can pass any tuple
\* to `JsonSerialize`. For example, a sub-sequence of _TETrace.
    \* ASSUME
    \*     LET J == INSTANCE Json
    \*         IN J!JsonSerialize("EngineSerialMC_TTrace_1791206168.json", _TETrace)

=============================================================================

 Note that you can extract this module `EngineSerialMC_TEExpression`
  to a dedicated file to reuse `expression` (the module in the 
  dedicated `EngineSerialMC_TEExpression.tla` file takes precedence 
  over the module `EngineSerialMC_TEExpression` below).

---- MODULE EngineSerialMC_TEExpression ----
EXTENDS Sequences, EngineSerialMC, TLCExt, Toolbox, Naturals, TLC

expression == 
    [
        \* To hide variables of the `EngineSerialMC` spec from the error trace,
        \* remove the variables below.  The trace will be written in the order
        \* of the fields of this record.
        i |-> i
        ,out |-> out
        ,results |-> results
        ,now |-> now
        ,pc |-> pc
        ,script |-> script
        ,rdl |-> rdl
        ,ext |-> ext
        ,inflight |-> inflight
        ,probe |-> probe
        ,cancelAt |-> cancelAt
        ,acc |-> acc
        ,queue |-> queue
        ,sent |-> sent
        ,wend |-> wend
        ,wfired |-> wfired
        ,dend |-> dend
        
        \* Put additional constant-, state-, and action-level expressions here:
        \* ,_stateNumber |-> _TEPosition
        \* ,_iUnchanged |-> i = i'
        
        \* Format the `i` variable as Json value.
        \* ,_iJson |->
        \*     LET J == INSTANCE Json
        \*     IN J!ToJson(i)
        
        \* Lastly, you may build expressions over arbitrary sets of states by
        \* leveraging the _TETrace operator.  For example, this is how to
        \* count the number of times a spec variable changed up to the current
        \* state in the trace.
        \* ,_iModCount |->
        \*     LET F[s \in DOMAIN _TETrace] ==
        \*         IF s = 1 THEN 0
        \*         ELSE IF _TETrace[s].i # _TETrace[s-1].i
        \*             THEN 1 + F[s-1] ELSE F[s-1]
        \*     IN F[_TEPosition - 1]
    ]

=============================================================================



Parsing and semantic processing can take forever if the trace below is long.
 In this case, it is advised to uncomment the module below to deserialize the
 trace from a generated binary file.

\*
\*---- MODULE EngineSerialMC_TETrace ----
\*EXTENDS IOUtils, EngineSerialMC, TLC
\*
\*trace == IODeserialize("EngineSerialMC_TTrace_1791206168.bin", TRUE)
\*
\*=============================================================================
\*

---- MODULE EngineSerialMC_TETrace ----
EXTENDS EngineSerialMC, TLC

trace == 
    <<
    ([ext |-> FALSE,acc |-> <<>>,cancelAt |-> -1,wfired |-> FALSE,i |-> 1,sent |-> <<>>,script |-> <<<<[ip |-> 0, ttl |-> 0, dest |-> FALSE, delay |-> 0, err |-> "sendfail"]>>, <<>>, <<>>>>,out |-> [set |-> FALSE],inflight |-> {},probe |-> [k |-> "none"],pc |-> "top",wend |-> 0,now |-> 0,dend |-> 0,rdl |-> 0,results |-> <<[k |-> "none"], [k |-> "none"], [k |-> "none"]>>,queue |-> <<>>]),
    ([ext |-> FALSE,acc |-> <<>>,cancelAt |-> -1,wfired |-> FALSE,i |-> 1,sent |-> <<>>,script |-> <<<<[ip |-> 0, ttl |-> 0, dest |-> FALSE, delay |-> 0, err |-> "sendfail"]>>, <<>>, <<>>>>,out |-> [set |-> FALSE],inflight |-> {},probe |-> [k |-> "none"],pc |-> "send",wend |-> 6,now |-> 0,dend |-> 2,rdl |-> 0,results |-> <<[k |-> "none"], [k |-> "none"], [k |-> "none"]>>,queue |-> <<>>]),
    ([ext |-> FALSE,acc |-> <<>>,cancelAt |-> -1,wfired |-> FALSE,i |-> 1,sent |-> <<>>,script |-> <<<<[ip |-> 0, ttl |-> 0, dest |-> FALSE, delay |-> 0, err |-> "sendfail"]>>, <<>>, <<>>>>,out |-> [t |-> 0, err |-> "send", set |-> TRUE, ok |-> FALSE, hops |-> <<>>],inflight |-> {},probe |-> [k |-> "none"],pc |-> "send",wend |-> 6,now |-> 0,dend |-> 2,rdl |-> 0,results |-> <<[k |-> "none"], [k |-> "none"], [k |-> "none"]>>,queue |-> <<>>])
    >>
----


=============================================================================

---- CONFIG EngineSerialMC_TTrace_1791206168 ----
CONSTANTS
    MinTTL = 1
    MaxTTL = 3
    Timeout = 6
    Poll = 3
    Delay = 2
    Scripts <- FaultScripts
    CancelTimes <- NoCancel

INVARIANT
    _inv

CHECK_DEADLOCK
    \* CHECK_DEADLOCK off because of PROPERTY or INVARIANT above.
    FALSE

INIT
    _init

NEXT
    _next

CONSTANT
    _TETrace <- _trace

ALIAS
    _expression
=============================================================================
\* Generated on Mon Oct 05 13:16:14 UTC 2026