SPECIFICATION Spec
INVARIANTS C16_Design C17_Design PermInv
CHECK_DEADLOCK FALSE
