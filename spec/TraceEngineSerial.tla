------------------------- MODULE TraceEngineSerial -------------------------
(***************************************************************************)
(* Event-level trace validation (L2) of common.TracerouteSerial against    *)
(* EngineSerial.tla; same scheme as TraceEngine.tla.  Logged lines: Send,  *)
(* Due, Got, Deadline, Cancel (marker), Return; silent steps: Top,         *)
(* PollStep, Store, WaitDelay, WindowFire, ExtCancel, Advance.             *)
(***************************************************************************)
EXTENDS EngineSerial, Json, IOUtils

Trace == ndJsonDeserialize(IOEnv.VT_TRACE)
Unit == 10000
VARIABLE l
tvars == <<vars, l>>

Ev(e) == l <= Len(Trace) /\ Trace[l].event = e
At == Trace[l].t = now * Unit
Consume == l' = l + 1
ScriptAt(k) == [t \in TTLs |-> Trace[k].spec.script[t - MinTTL + 1]]
Fresh(k) == /\ script' = ScriptAt(k) /\ cancelAt' = Trace[k].spec.cancel
            /\ now' = 0 /\ pc' = "top" /\ i' = MinTTL /\ wend' = 0 /\ wfired' = FALSE /\ dend' = 0 /\ rdl' = 0 /\ ext' = FALSE /\ probe' = Null
            /\ inflight' = {} /\ queue' = <<>> /\ results' = [t \in TTLs |-> Null] /\ sent' = <<>> /\ acc' = <<>> /\ out' = NoOut
TInit == /\ l = 3 /\ Len(Trace) >= 2 /\ Trace[1].event = "Begin" /\ Trace[2].event = "Params"
         /\ script = ScriptAt(2) /\ cancelAt = Trace[2].spec.cancel
         /\ now = 0 /\ pc = "top" /\ i = MinTTL /\ wend = 0 /\ wfired = FALSE /\ dend = 0 /\ rdl = 0 /\ ext = FALSE /\ probe = Null
         /\ inflight = {} /\ queue = <<>> /\ results = [t \in TTLs |-> Null] /\ sent = <<>> /\ acc = <<>> /\ out = NoOut
Reset == out.set /\ Ev("Begin") /\ l + 1 <= Len(Trace) /\ Trace[l + 1].event = "Params" /\ l' = l + 2 /\ Fresh(l + 1)

SameReply(r, e) == r.ttl = e.ttl /\ r.dest = e.dest /\ r.ip = e.ip /\ r.err = e.err
TSend == Ev("Send") /\ At /\ Trace[l].ttl = i /\ (Trace[l].fail <=> SendFails(i)) /\ Send /\ Consume
TDue  == Ev("Due") /\ At /\ Arrive /\ Consume
         /\ \E x \in inflight : x.at = now /\ SameReply(x.r, Trace[l]) /\ queue' = Append(queue, x.r)
TGot  == Ev("Got") /\ At /\ Len(queue) > 0 /\ SameReply(Head(queue), Trace[l]) /\ Got /\ Consume
         /\ (Trace[l].err = "" /\ Trace[l].ttl >= MinTTL /\ Trace[l].ttl <= MaxTTL => Trace[l].rtt_us = (now - SentAt(Trace[l].ttl)) * Unit)
TDeadline == Ev("Deadline") /\ At /\ Deadline /\ Consume
TCancel == Ev("Cancel") /\ At /\ Consume /\ UNCHANGED vars
HopsMatch(h, e) ==
    /\ Len(h) = Len(e)
    /\ \A k \in DOMAIN h :
         IF h[k].k = "hop" THEN e[k].addr # "" /\ e[k].ttl = h[k].ttl /\ e[k].dest = h[k].dest /\ e[k].rtt_us = h[k].rtt * Unit
         ELSE e[k].addr = ""
\* the value computed by whichever step ended the run (Top, Send failure, fatal Got, Store at the destination) is the logged one
TReturn == /\ Ev("Return") /\ out.set /\ Trace[l].t = out.t * Unit /\ Consume /\ UNCHANGED vars
           /\ out.ok = Trace[l].ok
           /\ (out.ok => HopsMatch(out.hops, Trace[l].hops))
           /\ (~out.ok => (out.err = "canceled" <=> Trace[l].err.canceled))
Silent == (Top \/ PollStep \/ Store \/ WaitDelay \/ WindowFire \/ ExtCancel \/ Advance) /\ UNCHANGED l

\* a scripted reply that becomes readable at the very instant the run has ended (the driver's timers are stopped only after
\* the engine has returned): nothing reads it any more
TDueLate == Ev("Due") /\ out.set /\ Consume /\ UNCHANGED vars
TNext == TSend \/ TDue \/ TDueLate \/ TGot \/ TDeadline \/ TCancel \/ TReturn \/ Reset \/ Silent
TSpec == TInit /\ [][TNext]_tvars
HighWater == TLCSet(1, IF TLCGet(1) > l THEN TLCGet(1) ELSE l)
ASSUME TLCSet(1, 0)
TraceAccepted == IF TLCGet(1) = Len(Trace) + 1 THEN TRUE
                 ELSE PrintT(<<"L2E", "stuck_before_line", TLCGet(1), Trace[IF TLCGet(1) > Len(Trace) THEN Len(Trace) ELSE TLCGet(1)].event>>) /\ FALSE
=============================================================================
