---------------------------- MODULE EnrichProps ----------------------------
(***************************************************************************)
(* C18(b,c) / C08 on recorded traces of the TTL cache (and its two users)  *)
(* and of publicip.GetPublicIP with scripted providers.                    *)
(***************************************************************************)
EXTENDS Integers, Sequences, FiniteSets, TLC

\* ---- cache: log = sequence of [op, key, cb, invoked, ok, val, t] ---------
\* A stored success is returned without invoking the callback until it expires; failures are never stored.
\* (exactly AT the expiry instant either answer is allowed)
C18_cache(ttl, log) ==
    \A i \in DOMAIN log : log[i].op = "get" =>
        LET k == log[i].key
            S == {j \in 1..(i - 1) : log[j].op = "get" /\ log[j].key = k /\ log[j].invoked /\ log[j].ok}      \* stores
            Valid == {j \in S : log[i].t - log[j].t < ttl}
            Expired == \A j \in S : log[i].t - log[j].t > ttl
            last == CHOOSE j \in Valid : \A j2 \in Valid : j >= j2
        IN /\ (Valid # {} => ~log[i].invoked /\ log[i].ok /\ log[i].val = log[last].val)
           /\ (Expired => log[i].invoked /\ (log[i].ok <=> log[i].cb = "ok"))
           /\ (log[i].invoked /\ log[i].cb = "err" => ~log[i].ok)

\* ---- providers: log = sequence of request events [host, attempt, kind, t] --
Hosts == <<"icanhazip.com", "ipinfo.io", "checkip.amazonaws.com", "api.ipify.org", "whatismyip.akamai.com">>
Idx(h) == CHOOSE i \in DOMAIN Hosts : Hosts[i] = h
PerProviderMs == 2000        \* (the trace clock of these scenarios is in milliseconds)
C18_pub(ex, log, out) ==
    /\ out.returned
    \* providers are asked in list order
    /\ \A i \in 1..(Len(log) - 1) : Idx(log[i].host) <= Idx(log[i + 1].host)
    /\ \A i \in DOMAIN log : \A p \in 1..(Idx(log[i].host) - 1) : \E j \in 1..(i - 1) : Idx(log[j].host) = p
    \* it stops at the first valid address: no request after the provider that answers it
    /\ (ex.winner > 0 => /\ out.ok /\ out.ip = ex.ip
                         /\ \A i \in DOMAIN log : Idx(log[i].host) <= ex.winner)
    /\ (ex.winner = 0 => ~out.ok)
    \* client errors and invalid bodies are final for that provider; retryable errors are retried within the budget
    /\ \A p \in {ex.final[x] : x \in DOMAIN ex.final} : Cardinality({i \in DOMAIN log : Idx(log[i].host) = p}) = 1
    /\ \A p \in {ex.retried[x] : x \in DOMAIN ex.retried} : Cardinality({i \in DOMAIN log : Idx(log[i].host) = p}) >= 2
\* C15 / C08 on the real fetcher without connectivity: every lookup comes back (failed) within the five providers' budgets, also after
\* an earlier lookup on the same fetcher failed
C15_fetch(got) == \A i \in DOMAIN got : got[i].op = "getip" => (got[i].returned /\ got[i].ms <= 5 * PerProviderMs + 4000)
\* C08: bounded whatever the providers do: 2 s per provider consulted
C08_pub(ex, log, out) ==
    /\ out.returned
    /\ out.t <= ex.consulted * PerProviderMs + 100
=============================================================================
