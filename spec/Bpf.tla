--------------------------------- MODULE Bpf ---------------------------------
(***************************************************************************)
(* C12: a classic-BPF interpreter (pc, A, X) in TLA+, run on the ACTUAL     *)
(* instructions extracted from the working tree at check time (JSON), over  *)
(* the finite class space of frames the programs can distinguish.           *)
(*   Verdict(prog, f) = Ref_filter(cfg, f)      exactness                   *)
(*   Matchable(cfg, f) => Ref_filter(cfg, f)    no matchable reply hidden   *)
(* 32-bit accumulator values are <<hi16, lo16>> pairs.                      *)
(***************************************************************************)
EXTENDS Integers, Sequences, FiniteSets, TLC, Json, IOUtils, Randomization, SequencesExt

Progs == JsonDeserialize(IOEnv.VT_BPF)      \* sequence of [name, ftype, src, dst, sport, dport, prog, err]
Only == IOEnv.VT_BPFONLY                    \* "" or a program name: partitions the check over TLC processes

\* ---- byte / bit helpers -------------------------------------------------
B(f, off) == f[off + 1]                                  \* byte at 0-based offset
InB(f, off, n) == off >= 0 /\ off + n <= Len(f)          \* a load of n bytes at off is inside the frame
U16(f, off) == B(f, off) * 256 + B(f, off + 1)
W32(f, off) == <<U16(f, off), U16(f, off + 2)>>
RECURSIVE And16(_, _, _)
And16(a, b, bit) == IF bit > 32768 THEN 0
                    ELSE (IF (a \div bit) % 2 = 1 /\ (b \div bit) % 2 = 1 THEN bit ELSE 0) + And16(a, b, bit * 2)
AndW(a, k) == <<And16(a[1], k[1], 1), And16(a[2], k[2], 1)>>
Zero == <<0, 0>>
W(n) == <<0, n>>       \* a 32-bit value < 65536

\* ---- 32-bit arithmetic on <<hi16, lo16>> pairs --------------------------------
RECURSIVE Bit16(_, _, _, _)
Bit16(op, a, b, bit) == IF bit > 32768 THEN 0
                        ELSE LET x == (a \div bit) % 2  y == (b \div bit) % 2
                                 r == CASE op = "or" -> IF x + y > 0 THEN 1 ELSE 0 [] op = "xor" -> (x + y) % 2 [] OTHER -> x * y
                             IN r * bit + Bit16(op, a, b, bit * 2)
BitW(op, a, b) == <<Bit16(op, a[1], b[1], 1), Bit16(op, a[2], b[2], 1)>>
Add32(a, b) == LET lo == a[2] + b[2] IN <<(a[1] + b[1] + lo \div 65536) % 65536, lo % 65536>>
Neg32(a) == Add32(<<65535 - a[1], 65535 - a[2]>>, <<0, 1>>)
Sub32(a, b) == Add32(a, Neg32(b))
Pow2(n) == CASE n = 0 -> 1 [] n = 1 -> 2 [] n = 2 -> 4 [] n = 3 -> 8 [] n = 4 -> 16 [] n = 5 -> 32 [] n = 6 -> 64 [] n = 7 -> 128 [] n = 8 -> 256
             [] n = 9 -> 512 [] n = 10 -> 1024 [] n = 11 -> 2048 [] n = 12 -> 4096 [] n = 13 -> 8192 [] n = 14 -> 16384 [] n = 15 -> 32768 [] OTHER -> 65536
Lsh32(a, n) == IF n >= 32 THEN Zero
               ELSE IF n >= 16 THEN <<(a[2] * Pow2(n - 16)) % 65536, 0>>
               ELSE <<(a[1] * Pow2(n) + (a[2] * Pow2(n)) \div 65536) % 65536, (a[2] * Pow2(n)) % 65536>>
Rsh32(a, n) == IF n >= 32 THEN Zero
               ELSE IF n >= 16 THEN <<0, a[1] \div Pow2(n - 16)>>
               ELSE <<a[1] \div Pow2(n), (a[2] \div Pow2(n)) + (a[1] % Pow2(n)) * Pow2(16 - n)>>
Gt32(a, b) == a[1] > b[1] \/ (a[1] = b[1] /\ a[2] > b[2])
Small(v) == v[1] = 0                     \* usable as an offset / shift count
NoMem == [m \in 0..15 |-> Zero]

\* ---- interpreter: the whole classic-BPF instruction set (mul/div/mod excepted) ----
\* returns TRUE (accept: non-zero return) or FALSE (drop, or a load outside the frame)
RECURSIVE Exec(_, _, _, _, _, _)
Exec(p, f, pc, A, X, M) ==
    IF pc > Len(p) THEN FALSE
    ELSE LET i == p[pc]  k == i.k[2]            \* offsets / small constants live in the low half
             kk == <<i.k[1], i.k[2]>>
             jmp(c) == Exec(p, f, pc + 1 + (IF c THEN i.jt ELSE i.jf), A, X, M)
             setA(v) == Exec(p, f, pc + 1, v, X, M)
             setX(v) == Exec(p, f, pc + 1, A, v, M)
             abs(n) == Small(kk) /\ InB(f, k, n)
             ind(n) == Small(kk) /\ Small(X) /\ InB(f, X[2] + k, n)
             alu(op, v) == CASE op = 0 -> setA(Add32(A, v)) [] op = 1 -> setA(Sub32(A, v))
                             [] op = 4 -> setA(BitW("or", A, v)) [] op = 5 -> setA(BitW("and", A, v)) [] op = 10 -> setA(BitW("xor", A, v))
                             [] op = 6 -> setA(IF Small(v) THEN Lsh32(A, v[2]) ELSE Zero)
                             [] op = 7 -> setA(IF Small(v) THEN Rsh32(A, v[2]) ELSE Zero)
                             [] op = 8 -> setA(Neg32(A))
                             [] OTHER -> Assert(FALSE, <<"Bpf.tla: unmodelled ALU operation (mul/div/mod)", i.op>>)
         IN CASE i.op = 40 (* 0x28 ldh abs *) -> (IF abs(2) THEN setA(W(U16(f, k))) ELSE FALSE)
              [] i.op = 48 (* 0x30 ldb abs *) -> (IF abs(1) THEN setA(W(B(f, k))) ELSE FALSE)
              [] i.op = 32 (* 0x20 ld abs  *) -> (IF abs(4) THEN setA(W32(f, k)) ELSE FALSE)
              [] i.op = 72 (* 0x48 ldh ind *) -> (IF ind(2) THEN setA(W(U16(f, X[2] + k))) ELSE FALSE)
              [] i.op = 80 (* 0x50 ldb ind *) -> (IF ind(1) THEN setA(W(B(f, X[2] + k))) ELSE FALSE)
              [] i.op = 64 (* 0x40 ld ind  *) -> (IF ind(4) THEN setA(W32(f, X[2] + k)) ELSE FALSE)
              [] i.op = 177 (* 0xb1 ldxb 4*([k]&0xf) *) -> (IF abs(1) THEN setX(W(4 * (B(f, k) % 16))) ELSE FALSE)
              [] i.op = 0   (* 0x00 ld imm  *) -> setA(kk)
              [] i.op = 1   (* 0x01 ldx imm *) -> setX(kk)
              [] i.op = 128 (* 0x80 ld len  *) -> setA(W(Len(f)))
              [] i.op = 129 (* 0x81 ldx len *) -> setX(W(Len(f)))
              [] i.op = 96  (* 0x60 ld mem  *) -> (IF Small(kk) /\ k < 16 THEN setA(M[k]) ELSE FALSE)
              [] i.op = 97  (* 0x61 ldx mem *) -> (IF Small(kk) /\ k < 16 THEN setX(M[k]) ELSE FALSE)
              [] i.op = 2   (* 0x02 st      *) -> (IF Small(kk) /\ k < 16 THEN Exec(p, f, pc + 1, A, X, [M EXCEPT ![k] = A]) ELSE FALSE)
              [] i.op = 3   (* 0x03 stx     *) -> (IF Small(kk) /\ k < 16 THEN Exec(p, f, pc + 1, A, X, [M EXCEPT ![k] = X]) ELSE FALSE)
              [] i.op = 7   (* 0x07 tax     *) -> setX(A)
              [] i.op = 135 (* 0x87 txa     *) -> setA(X)
              [] i.op % 8 = 4 /\ i.op < 176 (* alu: 0x04 | op<<4 | src(0x08) *) -> alu(i.op \div 16, IF (i.op \div 8) % 2 = 1 THEN X ELSE kk)
              [] i.op = 21 (* 0x15 jeq k *) -> jmp(A = kk)
              [] i.op = 29 (* 0x1d jeq x *) -> jmp(A = X)
              [] i.op = 69 (* 0x45 jset k *) -> jmp(BitW("and", A, kk) # Zero)
              [] i.op = 77 (* 0x4d jset x *) -> jmp(BitW("and", A, X) # Zero)
              [] i.op = 37 (* 0x25 jgt k *) -> jmp(Gt32(A, kk))
              [] i.op = 45 (* 0x2d jgt x *) -> jmp(Gt32(A, X))
              [] i.op = 53 (* 0x35 jge k *) -> jmp(Gt32(A, kk) \/ A = kk)
              [] i.op = 61 (* 0x3d jge x *) -> jmp(Gt32(A, X) \/ A = X)
              [] i.op = 5  (* 0x05 ja   *) -> (IF Small(kk) THEN Exec(p, f, pc + 1 + k, A, X, M) ELSE FALSE)
              [] i.op = 6  (* 0x06 ret k *) -> kk # Zero
              [] i.op = 22 (* 0x16 ret a *) -> A # Zero
              [] OTHER -> Assert(FALSE, <<"Bpf.tla: unmodelled opcode", i.op>>)
Verdict(pr, f) == Exec(pr.prog, f, 1, Zero, Zero, NoMem)

\* ---- reference predicates (declarative, on the bytes) ---------------------
Eth(f) == IF InB(f, 12, 2) THEN U16(f, 12) ELSE -1
RefICMP(f) ==
    \/ (Eth(f) = 2048 /\ InB(f, 23, 1) /\ B(f, 23) = 1)
    \/ (Eth(f) = 34525 /\ InB(f, 20, 1) /\ (B(f, 20) = 58 \/ (B(f, 20) = 44 /\ InB(f, 54, 1) /\ B(f, 54) = 58)))
RefUDP(f) ==
    \/ (Eth(f) = 2048 /\ InB(f, 23, 1) /\ B(f, 23) \in {1, 17})
    \/ (Eth(f) = 34525 /\ InB(f, 20, 1) /\ (B(f, 20) \in {58, 17} \/ (B(f, 20) = 44 /\ InB(f, 54, 1) /\ B(f, 54) \in {58, 17})))
Unfragmented(f) == InB(f, 20, 2) /\ U16(f, 20) % 8192 = 0        \* fragment offset 0: the transport header is present
RefSYNACK(f) ==
    /\ Eth(f) = 2048 /\ InB(f, 23, 1) /\ B(f, 23) = 6 /\ Unfragmented(f)
    /\ InB(f, 14, 1) /\ LET x == 4 * (B(f, 14) % 16) IN
         InB(f, x + 27, 1) /\ (B(f, x + 27) \div 2) % 2 = 1 /\ (B(f, x + 27) \div 16) % 2 = 1
RefTuple(c, f) ==
    /\ Eth(f) = 2048 /\ InB(f, 23, 1)
    /\ \/ B(f, 23) = 1
       \/ /\ B(f, 23) = 6
          /\ InB(f, 26, 8) /\ <<B(f, 26), B(f, 27), B(f, 28), B(f, 29)>> = c.src /\ <<B(f, 30), B(f, 31), B(f, 32), B(f, 33)>> = c.dst
          /\ Unfragmented(f)
          /\ LET x == 4 * (B(f, 14) % 16) IN
               InB(f, x + 14, 4) /\ U16(f, x + 14) = c.sport /\ U16(f, x + 16) = c.dport
Ref(c, f) == CASE c.name = "icmp" -> RefICMP(f) [] c.name = "udp" -> RefUDP(f) [] c.name = "synack" -> RefSYNACK(f)
               [] c.name = "dropall" -> FALSE [] c.name = "tcp" -> RefTuple(c, f)
               [] c.name = "selftest" -> Verdict(c, f)      \* no reference: these programs only feed the interpreter-vs-VM cross-check

\* what the matchers behind each filter can turn into a hop or handshake (well-formed frames only)
WellFormed4(f) == Eth(f) = 2048 /\ InB(f, 14, 20) /\ B(f, 14) \div 16 = 4 /\ B(f, 14) % 16 >= 5 /\ InB(f, 14, 4 * (B(f, 14) % 16))
                  /\ U16(f, 20) % 16384 = 0       \* neither a fragment offset nor more-fragments
Matchable(c, f) ==
    CASE c.name \in {"icmp", "udp"} -> (WellFormed4(f) /\ B(f, 23) = 1 /\ InB(f, 14 + 4 * (B(f, 14) % 16), 8))
                                       \/ (Eth(f) = 34525 /\ InB(f, 14, 48) /\ B(f, 20) = 58)
      [] c.name = "synack" -> WellFormed4(f) /\ B(f, 23) = 6 /\ LET x == 4 * (B(f, 14) % 16) IN
                                 InB(f, x + 14, 20) /\ (B(f, x + 27) \div 2) % 2 = 1 /\ (B(f, x + 27) \div 16) % 2 = 1
      [] c.name = "tcp" -> WellFormed4(f) /\
                             (\/ (B(f, 23) = 1 /\ InB(f, 14 + 4 * (B(f, 14) % 16), 8))
                              \/ (B(f, 23) = 6 /\ <<B(f, 26), B(f, 27), B(f, 28), B(f, 29)>> = c.src /\ <<B(f, 30), B(f, 31), B(f, 32), B(f, 33)>> = c.dst
                                  /\ LET x == 4 * (B(f, 14) % 16) IN InB(f, x + 14, 20) /\ U16(f, x + 14) = c.sport /\ U16(f, x + 16) = c.dport))
      [] OTHER -> FALSE

\* ---- frame classes --------------------------------------------------------
Rep(n, b) == [i \in 1..n |-> b]
Flip(a, k) == [a EXCEPT ![k] = (a[k] + 128) % 256]      \* one byte different
AltAddr(a) == {a} \cup {Flip(a, k) : k \in 1..4}
AltPort(p) == {p, (p + 256) % 65536, (p + 1) % 65536}
Frame4(c, fc) ==
    LET hl == IF fc.ihl < 5 THEN 20 ELSE 4 * fc.ihl
        ip == <<64 + fc.ihl, 0, 0, hl + 20, 18, 52, fc.frag \div 256, fc.frag % 256, 61, fc.proto, 0, 0>> \o fc.src \o fc.dst \o Rep(hl - 20, 1)
        l4 == <<fc.sport \div 256, fc.sport % 256, fc.dport \div 256, fc.dport % 256, 0, 0, 0, 1, 0, 0, 0, 2, 80, fc.flags, 255, 255, 0, 0, 0, 0>>
        full == Rep(12, 0) \o <<fc.eth \div 256, fc.eth % 256>> \o ip \o l4
    IN SubSeq(full, 1, IF fc.len > Len(full) THEN Len(full) ELSE fc.len)
Frame6(fc) ==
    LET ip == <<96, 0, 0, 0, 0, 28, fc.nh, 61>> \o Rep(32, 7)
        ext == <<fc.nh2, 0, 0, 0, 0, 0, 0, 1>>
        full == Rep(12, 0) \o <<134, 221>> \o ip \o ext \o Rep(20, 3)
    IN SubSeq(full, 1, IF fc.len > Len(full) THEN Len(full) ELSE fc.len)

Lens4 == {0, 13, 14, 15, 22, 23, 24, 25, 29, 30, 33, 34, 35, 36, 37, 38, 40, 47, 48, 50, 53, 54, 61, 62, 74, 94, 114}
CSrc(c) == IF c.name = "tcp" THEN c.src ELSE <<198, 51, 100, 9>>
CDst(c) == IF c.name = "tcp" THEN c.dst ELSE <<10, 77, 0, 1>>
\* three sub-lattices (the full product is not needed: address/port bytes only matter for unfragmented IPv4 TCP)
Classes4(c) ==
    \* (A) ethertype x protocol x every frame length around every load offset
    [eth : {2048, 2054, 34525}, proto : {1, 6, 17, 58, 44, 0}, ihl : {5}, frag : {0}, src : {CSrc(c)}, dst : {CDst(c)},
     sport : {c.sport}, dport : {c.dport}, flags : {18}, len : Lens4]
    \* (B) IPv4 ICMP/TCP: every header length nibble x fragment words x frame lengths
    \cup [eth : {2048}, proto : {6, 1}, ihl : 0..15, frag : {0, 8192, 16384, 1, 8191, 8193, 185}, src : {CSrc(c)}, dst : {CDst(c)},
          sport : {c.sport}, dport : {c.dport}, flags : {18}, len : Lens4]
    \* (C) IPv4 TCP: every address byte equal/different x every port byte equal/different x options x first-fragment bit
    \cup [eth : {2048}, proto : {6}, ihl : {5, 6, 15}, frag : {0, 8192}, src : AltAddr(CSrc(c)), dst : AltAddr(CDst(c)),
          sport : AltPort(c.sport), dport : AltPort(c.dport), flags : {18, 2}, len : {37, 38, 54, 74, 114}]
\* the SYN-ACK filter looks at the flag byte: all 256 values
ClassesFlags(c) ==
    [eth : {2048, 34525}, proto : {6, 17, 1}, ihl : {0, 4, 5, 6, 15}, frag : {0, 8192, 1}, src : {<<198, 51, 100, 9>>}, dst : {<<10, 77, 0, 1>>},
     sport : {443}, dport : {40000}, flags : 0..255, len : {26, 27, 41, 42, 47, 48, 54, 55, 61, 62, 74, 75, 94, 114}]
Classes6 == [nh : {58, 44, 6, 17, 0, 43}, nh2 : {58, 6, 17, 44}, len : {14, 20, 21, 54, 55, 62, 82}]

VARIABLES pi, fr, ok, vd, rf
vars == <<pi, fr, ok, vd, rf>>
Init == pi \in {i \in DOMAIN Progs : Only = "" \/ Progs[i].name = Only} /\ fr = <<>> /\ ok = TRUE /\ vd = FALSE /\ rf = FALSE
Check(c, f) == Verdict(c, f) = Ref(c, f) /\ (Matchable(c, f) => Ref(c, f))
Step == /\ fr = <<>>
        /\ \/ \E fc \in (IF Progs[pi].name = "synack" THEN ClassesFlags(Progs[pi]) ELSE Classes4(Progs[pi])) :
                 fr' = Frame4(Progs[pi], fc) /\ fr' # <<>> /\ ok' = Check(Progs[pi], fr')
           \/ \E fc \in Classes6 : fr' = Frame6(fc) /\ ok' = Check(Progs[pi], fr')
        /\ vd' = Verdict(Progs[pi], fr') /\ rf' = Ref(Progs[pi], fr')
        /\ UNCHANGED pi
Spec == Init /\ [][Step]_vars

C12_Exact == ok
ProgramsExtracted == \A i \in DOMAIN Progs : Progs[i].err = "" /\ Len(Progs[i].prog) > 0

\* sample of concrete frames with the interpreter's verdict, for cross-checking against the real VM
SampleOut == IOEnv.VT_SAMPLE
EmitSample == (fr # <<>> /\ SampleOut = "1" /\ RandomElement(1..(IF Progs[pi].name = "selftest" THEN 4 ELSE 40)) = 1) =>
                 PrintT(<<"FRAME", ToJson([prog |-> pi, frame |-> fr, verdict |-> Verdict(Progs[pi], fr)])>>)
=============================================================================
