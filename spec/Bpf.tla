--------------------------------- MODULE Bpf ---------------------------------
(***************************************************************************)
(* C12: a classic-BPF interpreter (pc, A, X) in TLA+, run on the ACTUAL     *)
(* instructions extracted from the working tree at check time (JSON), over  *)
(* the finite class space of frames the programs can distinguish.           *)
(*   Verdict(prog, f) = Ref_filter(cfg, f)      exactness                   *)
(*   Matchable(cfg, f) => Ref_filter(cfg, f)    no matchable reply hidden   *)
(* 32-bit accumulator values are <<hi16, lo16>> pairs.                      *)
(***************************************************************************)
EXTENDS Integers, Sequences, FiniteSets, TLC, Json, IOUtils, Randomization, SequencesExt

Progs == JsonDeserialize(IOEnv.VT_BPF)      \* sequence of [name, ftype, src, dst, sport, dport, prog, err]
Only == IOEnv.VT_BPFONLY                    \* "" or a program name: partitions the check over TLC processes

\* ---- byte / bit helpers -------------------------------------------------
B(f, off) == f[off + 1]                                  \* byte at 0-based offset
InB(f, off, n) == off >= 0 /\ off + n <= Len(f)          \* a load of n bytes at off is inside the frame
U16(f, off) == B(f, off) * 256 + B(f, off + 1)
W32(f, off) == <<U16(f, off), U16(f, off + 2)>>
RECURSIVE And16(_, _, _)
And16(a, b, bit) == IF bit > 32768 THEN 0
                    ELSE (IF (a \div bit) % 2 = 1 /\ (b \div bit) % 2 = 1 THEN bit ELSE 0) + And16(a, b, bit * 2)
AndW(a, k) == <<And16(a[1], k[1], 1), And16(a[2], k[2], 1)>>
Zero == <<0, 0>>
W(n) == <<0, n>>       \* a 32-bit value < 65536

\* ---- interpreter ---------------------------------------------------------
\* returns TRUE (accept: non-zero return) or FALSE (drop, or a load outside the frame)
RECURSIVE Exec(_, _, _, _, _)
Exec(p, f, pc, A, X) ==
    IF pc > Len(p) THEN FALSE
    ELSE LET i == p[pc]  k == i.k[1] * 65536 * 0 + i.k[2]   \* offsets / small constants live in the low half
             kk == <<i.k[1], i.k[2]>>
             jmp(c) == Exec(p, f, pc + 1 + (IF c THEN i.jt ELSE i.jf), A, X)
         IN CASE i.op = 40 (* 0x28 ldh abs *) -> (IF InB(f, k, 2) THEN Exec(p, f, pc + 1, W(U16(f, k)), X) ELSE FALSE)
              [] i.op = 48 (* 0x30 ldb abs *) -> (IF InB(f, k, 1) THEN Exec(p, f, pc + 1, W(B(f, k)), X) ELSE FALSE)
              [] i.op = 32 (* 0x20 ld abs  *) -> (IF InB(f, k, 4) THEN Exec(p, f, pc + 1, W32(f, k), X) ELSE FALSE)
              [] i.op = 72 (* 0x48 ldh ind *) -> (IF InB(f, X + k, 2) THEN Exec(p, f, pc + 1, W(U16(f, X + k)), X) ELSE FALSE)
              [] i.op = 80 (* 0x50 ldb ind *) -> (IF InB(f, X + k, 1) THEN Exec(p, f, pc + 1, W(B(f, X + k)), X) ELSE FALSE)
              [] i.op = 64 (* 0x40 ld ind  *) -> (IF InB(f, X + k, 4) THEN Exec(p, f, pc + 1, W32(f, X + k), X) ELSE FALSE)
              [] i.op = 177 (* 0xb1 ldxb 4*([k]&0xf) *) -> (IF InB(f, k, 1) THEN Exec(p, f, pc + 1, A, 4 * (B(f, k) % 16)) ELSE FALSE)
              [] i.op = 21 (* 0x15 jeq  *) -> jmp(A = kk)
              [] i.op = 69 (* 0x45 jset *) -> jmp(AndW(A, kk) # Zero)
              [] i.op = 37 (* 0x25 jgt  *) -> jmp(A[1] > kk[1] \/ (A[1] = kk[1] /\ A[2] > kk[2]))
              [] i.op = 53 (* 0x35 jge  *) -> jmp(A[1] > kk[1] \/ (A[1] = kk[1] /\ A[2] >= kk[2]))
              [] i.op = 5  (* 0x05 ja   *) -> Exec(p, f, pc + 1 + k, A, X)
              [] i.op = 6  (* 0x06 ret k *) -> kk # Zero
              [] i.op = 22 (* 0x16 ret a *) -> A # Zero
              [] OTHER -> Assert(FALSE, <<"Bpf.tla: unmodelled opcode", i.op>>)
Verdict(pr, f) == Exec(pr.prog, f, 1, Zero, 0)

\* ---- reference predicates (declarative, on the bytes) ---------------------
Eth(f) == IF InB(f, 12, 2) THEN U16(f, 12) ELSE -1
RefICMP(f) ==
    \/ (Eth(f) = 2048 /\ InB(f, 23, 1) /\ B(f, 23) = 1)
    \/ (Eth(f) = 34525 /\ InB(f, 20, 1) /\ (B(f, 20) = 58 \/ (B(f, 20) = 44 /\ InB(f, 54, 1) /\ B(f, 54) = 58)))
RefUDP(f) ==
    \/ (Eth(f) = 2048 /\ InB(f, 23, 1) /\ B(f, 23) \in {1, 17})
    \/ (Eth(f) = 34525 /\ InB(f, 20, 1) /\ (B(f, 20) \in {58, 17} \/ (B(f, 20) = 44 /\ InB(f, 54, 1) /\ B(f, 54) \in {58, 17})))
Unfragmented(f) == InB(f, 20, 2) /\ U16(f, 20) % 8192 = 0        \* fragment offset 0: the transport header is present
RefSYNACK(f) ==
    /\ Eth(f) = 2048 /\ InB(f, 23, 1) /\ B(f, 23) = 6 /\ Unfragmented(f)
    /\ InB(f, 14, 1) /\ LET x == 4 * (B(f, 14) % 16) IN
         InB(f, x + 27, 1) /\ (B(f, x + 27) \div 2) % 2 = 1 /\ (B(f, x + 27) \div 16) % 2 = 1
RefTuple(c, f) ==
    /\ Eth(f) = 2048 /\ InB(f, 23, 1)
    /\ \/ B(f, 23) = 1
       \/ /\ B(f, 23) = 6
          /\ InB(f, 26, 8) /\ <<B(f, 26), B(f, 27), B(f, 28), B(f, 29)>> = c.src /\ <<B(f, 30), B(f, 31), B(f, 32), B(f, 33)>> = c.dst
          /\ Unfragmented(f)
          /\ LET x == 4 * (B(f, 14) % 16) IN
               InB(f, x + 14, 4) /\ U16(f, x + 14) = c.sport /\ U16(f, x + 16) = c.dport
Ref(c, f) == CASE c.name = "icmp" -> RefICMP(f) [] c.name = "udp" -> RefUDP(f) [] c.name = "synack" -> RefSYNACK(f)
               [] c.name = "dropall" -> FALSE [] c.name = "tcp" -> RefTuple(c, f)

\* what the matchers behind each filter can turn into a hop or handshake (well-formed frames only)
WellFormed4(f) == Eth(f) = 2048 /\ InB(f, 14, 20) /\ B(f, 14) \div 16 = 4 /\ B(f, 14) % 16 >= 5 /\ InB(f, 14, 4 * (B(f, 14) % 16))
                  /\ U16(f, 20) % 16384 = 0       \* neither a fragment offset nor more-fragments
Matchable(c, f) ==
    CASE c.name \in {"icmp", "udp"} -> (WellFormed4(f) /\ B(f, 23) = 1 /\ InB(f, 14 + 4 * (B(f, 14) % 16), 8))
                                       \/ (Eth(f) = 34525 /\ InB(f, 14, 48) /\ B(f, 20) = 58)
      [] c.name = "synack" -> WellFormed4(f) /\ B(f, 23) = 6 /\ LET x == 4 * (B(f, 14) % 16) IN
                                 InB(f, x + 14, 20) /\ (B(f, x + 27) \div 2) % 2 = 1 /\ (B(f, x + 27) \div 16) % 2 = 1
      [] c.name = "tcp" -> WellFormed4(f) /\
                             (\/ (B(f, 23) = 1 /\ InB(f, 14 + 4 * (B(f, 14) % 16), 8))
                              \/ (B(f, 23) = 6 /\ <<B(f, 26), B(f, 27), B(f, 28), B(f, 29)>> = c.src /\ <<B(f, 30), B(f, 31), B(f, 32), B(f, 33)>> = c.dst
                                  /\ LET x == 4 * (B(f, 14) % 16) IN InB(f, x + 14, 20) /\ U16(f, x + 14) = c.sport /\ U16(f, x + 16) = c.dport))
      [] OTHER -> FALSE

\* ---- frame classes --------------------------------------------------------
Rep(n, b) == [i \in 1..n |-> b]
Flip(a, k) == [a EXCEPT ![k] = (a[k] + 128) % 256]      \* one byte different
AltAddr(a) == {a} \cup {Flip(a, k) : k \in 1..4}
AltPort(p) == {p, (p + 256) % 65536, (p + 1) % 65536}
Frame4(c, fc) ==
    LET hl == IF fc.ihl < 5 THEN 20 ELSE 4 * fc.ihl
        ip == <<64 + fc.ihl, 0, 0, hl + 20, 18, 52, fc.frag \div 256, fc.frag % 256, 61, fc.proto, 0, 0>> \o fc.src \o fc.dst \o Rep(hl - 20, 1)
        l4 == <<fc.sport \div 256, fc.sport % 256, fc.dport \div 256, fc.dport % 256, 0, 0, 0, 1, 0, 0, 0, 2, 80, fc.flags, 255, 255, 0, 0, 0, 0>>
        full == Rep(12, 0) \o <<fc.eth \div 256, fc.eth % 256>> \o ip \o l4
    IN SubSeq(full, 1, IF fc.len > Len(full) THEN Len(full) ELSE fc.len)
Frame6(fc) ==
    LET ip == <<96, 0, 0, 0, 0, 28, fc.nh, 61>> \o Rep(32, 7)
        ext == <<fc.nh2, 0, 0, 0, 0, 0, 0, 1>>
        full == Rep(12, 0) \o <<134, 221>> \o ip \o ext \o Rep(20, 3)
    IN SubSeq(full, 1, IF fc.len > Len(full) THEN Len(full) ELSE fc.len)

Lens4 == {0, 13, 14, 15, 22, 23, 24, 25, 29, 30, 33, 34, 35, 36, 37, 38, 40, 47, 48, 50, 53, 54, 61, 62, 74, 94, 114}
CSrc(c) == IF c.name = "tcp" THEN c.src ELSE <<198, 51, 100, 9>>
CDst(c) == IF c.name = "tcp" THEN c.dst ELSE <<10, 77, 0, 1>>
\* three sub-lattices (the full product is not needed: address/port bytes only matter for unfragmented IPv4 TCP)
Classes4(c) ==
    \* (A) ethertype x protocol x every frame length around every load offset
    [eth : {2048, 2054, 34525}, proto : {1, 6, 17, 58, 44, 0}, ihl : {5}, frag : {0}, src : {CSrc(c)}, dst : {CDst(c)},
     sport : {c.sport}, dport : {c.dport}, flags : {18}, len : Lens4]
    \* (B) IPv4 ICMP/TCP: every header length nibble x fragment words x frame lengths
    \cup [eth : {2048}, proto : {6, 1}, ihl : 0..15, frag : {0, 8192, 16384, 1, 8191, 8193, 185}, src : {CSrc(c)}, dst : {CDst(c)},
          sport : {c.sport}, dport : {c.dport}, flags : {18}, len : Lens4]
    \* (C) IPv4 TCP: every address byte equal/different x every port byte equal/different x options x first-fragment bit
    \cup [eth : {2048}, proto : {6}, ihl : {5, 6, 15}, frag : {0, 8192}, src : AltAddr(CSrc(c)), dst : AltAddr(CDst(c)),
          sport : AltPort(c.sport), dport : AltPort(c.dport), flags : {18, 2}, len : {37, 38, 54, 74, 114}]
\* the SYN-ACK filter looks at the flag byte: all 256 values
ClassesFlags(c) ==
    [eth : {2048, 34525}, proto : {6, 17, 1}, ihl : {0, 4, 5, 6, 15}, frag : {0, 8192, 1}, src : {<<198, 51, 100, 9>>}, dst : {<<10, 77, 0, 1>>},
     sport : {443}, dport : {40000}, flags : 0..255, len : {26, 27, 41, 42, 47, 48, 54, 55, 61, 62, 74, 75, 94, 114}]
Classes6 == [nh : {58, 44, 6, 17, 0, 43}, nh2 : {58, 6, 17, 44}, len : {14, 20, 21, 54, 55, 62, 82}]

VARIABLES pi, fr, ok, vd, rf
vars == <<pi, fr, ok, vd, rf>>
Init == pi \in {i \in DOMAIN Progs : Only = "" \/ Progs[i].name = Only} /\ fr = <<>> /\ ok = TRUE /\ vd = FALSE /\ rf = FALSE
Check(c, f) == Verdict(c, f) = Ref(c, f) /\ (Matchable(c, f) => Ref(c, f))
Step == /\ fr = <<>>
        /\ \/ \E fc \in (IF Progs[pi].name = "synack" THEN ClassesFlags(Progs[pi]) ELSE Classes4(Progs[pi])) :
                 fr' = Frame4(Progs[pi], fc) /\ fr' # <<>> /\ ok' = Check(Progs[pi], fr')
           \/ \E fc \in Classes6 : fr' = Frame6(fc) /\ ok' = Check(Progs[pi], fr')
        /\ vd' = Verdict(Progs[pi], fr') /\ rf' = Ref(Progs[pi], fr')
        /\ UNCHANGED pi
Spec == Init /\ [][Step]_vars

C12_Exact == ok
ProgramsExtracted == \A i \in DOMAIN Progs : Progs[i].err = "" /\ Len(Progs[i].prog) > 0

\* sample of concrete frames with the interpreter's verdict, for cross-checking against the real VM
SampleOut == IOEnv.VT_SAMPLE
EmitSample == (fr # <<>> /\ SampleOut = "1" /\ RandomElement(1..40) = 1) =>
                 PrintT(<<"FRAME", ToJson([prog |-> pi, frame |-> fr, verdict |-> Verdict(Progs[pi], fr)])>>)
=============================================================================
