-------------------------------- MODULE Enrich --------------------------------
(***************************************************************************)
(* Auxiliary services (C18 b/c, C08):                                      *)
(*  - the process-wide TTL cache (cache/cache.go GetWithExpiration) as a   *)
(*    state machine: Get(k, outcome of cb) / Advance(time);                *)
(*  - public-IP discovery (publicip/fetcher.go): providers in list order,  *)
(*    per-provider 2 s budget, permanent vs retryable outcomes.            *)
(* Design invariants are checked exhaustively; the operation sequences /   *)
(* provider scripts TLC explores are replayed on the real packages.        *)
(***************************************************************************)
EXTENDS Integers, Sequences, FiniteSets, TLC, Json, IOUtils, Randomization, SequencesExt

CONSTANTS Keys, TTL, MaxOps
Mode == IOEnv.VT_GEN

\* ---- cache state machine -------------------------------------------------
VARIABLES now, store, log, fresh
vars == <<now, store, log, fresh>>
None == [v |-> "", at |-> -1]
Init == now = 0 /\ store = [k \in Keys |-> None] /\ log = <<>> /\ fresh = 0
HasValid(k) == store[k].at >= 0 /\ now - store[k].at < TTL
Get(k, cb) ==
    /\ Len(log) < MaxOps
    /\ IF HasValid(k)
       THEN /\ log' = Append(log, [op |-> "get", key |-> k, cb |-> cb, invoked |-> FALSE, ok |-> TRUE, val |-> store[k].v, t |-> now])
            /\ UNCHANGED <<store, fresh>>
       ELSE /\ fresh' = fresh + 1
            /\ IF cb = "ok"
               THEN /\ store' = [store EXCEPT ![k] = [v |-> "v" \o ToString(fresh + 1), at |-> now]]
                    /\ log' = Append(log, [op |-> "get", key |-> k, cb |-> cb, invoked |-> TRUE, ok |-> TRUE, val |-> "v" \o ToString(fresh + 1), t |-> now])
               ELSE /\ UNCHANGED store          \* errors are not cached
                    /\ log' = Append(log, [op |-> "get", key |-> k, cb |-> cb, invoked |-> TRUE, ok |-> FALSE, val |-> "", t |-> now])
    /\ UNCHANGED now
Advance(d) == /\ Len(log) < MaxOps /\ now' = now + d
              /\ log' = Append(log, [op |-> "advance", key |-> "", cb |-> "", invoked |-> FALSE, ok |-> TRUE, val |-> "", t |-> now + d, ms |-> d])
              /\ UNCHANGED <<store, fresh>>
Next == (\E k \in Keys, cb \in {"ok", "err"} : Get(k, cb)) \/ (\E d \in {TTL - 1, 2, TTL + 1} : Advance(d))
Spec == Init /\ [][Next]_vars

\* design invariants (C18 b)
NeverStoresFailure == \A i \in DOMAIN log : (log[i].op = "get" /\ log[i].invoked /\ ~log[i].ok) =>
                          \A j \in (i + 1)..Len(log) : (log[j].op = "get" /\ log[j].key = log[i].key /\ ~log[j].invoked) => log[j].val # ""
HitNeedsStore == \A i \in DOMAIN log : (log[i].op = "get" /\ ~log[i].invoked) =>
                    \E j \in 1..(i - 1) : log[j].op = "get" /\ log[j].key = log[i].key /\ log[j].invoked /\ log[j].ok
                                         /\ log[j].val = log[i].val /\ log[i].t - log[j].t < TTL
MissAfterExpiry == \A i \in DOMAIN log : (log[i].op = "get" /\ log[i].invoked) =>
                    \A j \in 1..(i - 1) : (log[j].op = "get" /\ log[j].key = log[i].key /\ log[j].invoked /\ log[j].ok) => log[i].t - log[j].t >= TTL

\* every maximal behaviour is a scenario: emitted at depth MaxOps
EmitOps == (Len(log) = MaxOps /\ Mode = "cache") =>
              PrintT(<<"OPS", ToJson([i \in DOMAIN log |-> IF log[i].op = "get" THEN [op |-> "get", key |-> log[i].key, cb |-> log[i].cb, ms |-> 0, via |-> "raw"]
                                                         ELSE [op |-> "advance", key |-> "", cb |-> "", ms |-> log[i].ms, via |-> "raw"]])>>)

\* ---- provider scripts (C18 c, C08) ------------------------------------------
Resp(kind, status, body) == [kind |-> kind, status |-> status, body |-> body, delay_us |-> 0]
IPOf(p) == "203.0.113." \o ToString(p)
\* per-provider behaviours: [script, class] ; class: win | final | retry | stall
Behav(p) == { [n |-> "ok",        s |-> <<Resp("ok", 200, IPOf(p) \o "\n")>>,                                c |-> "win"],
              [n |-> "5xx_valid", s |-> <<Resp("status", 503, IPOf(p))>>,                                   c |-> "win"],
              [n |-> "4xx",       s |-> <<Resp("status", 404, IPOf(p))>>,                                   c |-> "final"],
              [n |-> "429",       s |-> <<Resp("status", 429, IPOf(p))>>,                                   c |-> "final"],
              \* a throttling answer that names a retry delay is a client error like any other: final for that provider (a second
              \* request to it - which would be answered - is never made)
              [n |-> "429_ra0",   s |-> <<Resp("status", 429, "slow down") @@ [retry_after |-> "0"], Resp("ok", 200, IPOf(p) \o "\n")>>,   c |-> "final"],
              [n |-> "429_ra1",   s |-> <<Resp("status", 429, "slow down") @@ [retry_after |-> "1"], Resp("ok", 200, IPOf(p) \o "\n")>>,   c |-> "final"],
              [n |-> "invalid",   s |-> <<Resp("body", 200, "not-an-address")>>,                            c |-> "final"],
              [n |-> "5xx_invalid", s |-> <<Resp("status", 503, "<html>service unavailable</html>")>>,       c |-> "final"],
              [n |-> "empty",     s |-> <<Resp("body", 200, "")>>,                                          c |-> "final"],
              [n |-> "zoned",     s |-> <<Resp("body", 200, "fe80::1%eth0")>>,                              c |-> "final"],
              [n |-> "addrport",  s |-> <<Resp("body", 200, IPOf(p) \o ":80")>>,                            c |-> "final"],
              [n |-> "cidr",      s |-> <<Resp("body", 200, IPOf(p) \o "/32")>>,                            c |-> "final"],
              [n |-> "err_ok",    s |-> <<Resp("neterr", 0, ""), Resp("ok", 200, "  " \o IPOf(p) \o " \n")>>, c |-> "retrywin"],
              [n |-> "err",       s |-> <<Resp("neterr", 0, "")>>,                                          c |-> "retry"],
              [n |-> "hang",      s |-> <<Resp("hang", 0, "")>>,                                            c |-> "stall"],
              [n |-> "slowbody",  s |-> <<Resp("slowbody", 200, IPOf(p))>>,                                  c |-> "stall"] }
PubScen(bs) ==   \* bs: behaviours of providers 1..3; providers 4,5: transport errors
    LET cls(p) == IF p <= Len(bs) THEN bs[p].c ELSE "retry"
        W == {p \in 1..5 : cls(p) \in {"win", "retrywin"}}
        winner == IF W = {} THEN 0 ELSE CHOOSE p \in W : \A q \in W : p <= q
        consulted == IF winner = 0 THEN 5 ELSE winner
    IN [id |-> "C18/pub/" \o ToJson([p \in DOMAIN bs |-> bs[p].n]), label |-> "providers/" \o bs[1].n \o "/" \o bs[2].n \o "/" \o bs[3].n, kind |-> "pubip",
        extra |-> [providers |-> [p \in DOMAIN bs |-> bs[p].s],
                   expect |-> [winner |-> winner, ip |-> IF winner = 0 THEN "" ELSE IPOf(winner), consulted |-> consulted,
                               final |-> {p \in 1..consulted : cls(p) = "final"},
                               retried |-> {p \in 1..consulted : cls(p) \in {"retry", "retrywin"}},
                               stalls |-> \E p \in 1..consulted : cls(p) = "stall"]]]
PubAll == { PubScen(<<a, b, c>>) : a \in Behav(1), b \in Behav(2), c \in Behav(3) }
ASSUME Mode = "pub" => /\ ndJsonSerialize(IOEnv.VT_OUT, SetToSeq(PubAll)) /\ PrintT(<<"GEN", "pub", Cardinality(PubAll), Cardinality(PubAll)>>)
=============================================================================
