----------------------------- MODULE TcpPolicy -----------------------------
(***************************************************************************)
(* TCP method policy (C20): traceroute/runner.go performTCPFallback +      *)
(* runE2eProbeOnce, sack/traceroute_sack.go runSackTraceroute and the      *)
(* sources of NotSupportedError.                                           *)
(*   Code(m, cap, f)   the implementation's path, step by step             *)
(*   Policy(m, cap, f) what the property demands                           *)
(* cap: what the target can do; f: an injected non-capability failure.     *)
(***************************************************************************)
EXTENDS Integers, Sequences, FiniteSets, TLC

Methods == {"syn", "sack", "prefer_sack"}
\* (unreachable: the connect is answered by an ICMP host-unreachable - a filter on the way - instead of a RST)
\* (addr_mismatch: the target accepts and would do SACK, but the host's policy routing gives the TCP connection another source
\*  address than the one the probes are crafted with - a LOCAL reason, not a statement about the target)
\* (udp_refused: the host's routing policy refuses DATAGRAM routes to the target - the local address cannot be determined: every
\*  method ends with an error before any handle is opened, and nothing connects to the target instead)
Caps == {"sack_ok", "sack_ok_ts", "no_sackperm", "ack_nosack", "port_closed", "unreachable", "no_synack", "addr_mismatch", "udp_refused"}
Faults == {"none", "filter1", "filter2", "write1", "read_fatal"}

\* outcome of one SACK attempt: <<result, notSupported>>
SackAttempt(cap, f) ==
    IF f = "filter1" THEN <<"error", FALSE>>                      \* SetPacketFilter(SYNACK) fails
    ELSE IF cap \in {"port_closed", "unreachable"} THEN <<"error", TRUE>>   \* dial fails (refused / no route to host) -> NotSupportedError
    ELSE IF cap = "addr_mismatch" THEN <<"error", FALSE>>         \* the connection's local address is not the expected one: plain error
    ELSE IF f = "read_fatal" THEN <<"error", FALSE>>              \* ReadHandshake: fatal read error
    ELSE IF cap = "no_synack" THEN <<"error", FALSE>>             \* readHandshake timed out: not a capability statement
    ELSE IF cap = "no_sackperm" THEN <<"error", TRUE>>            \* missing SACK-permitted -> NotSupportedError
    ELSE IF f = "filter2" THEN <<"error", FALSE>>
    ELSE IF f = "write1" THEN <<"error", FALSE>>
    ELSE IF cap = "ack_nosack" THEN <<"error", TRUE>>             \* ACK without SACK blocks -> NotSupportedError
    ELSE <<"sack", FALSE>>
\* a SYN traceroute under the same injected failure (faults are consumed by the first attempt that reaches them)
SynAttempt(f, consumed) == IF ~consumed /\ f \in {"filter1", "write1", "read_fatal"} THEN "error" ELSE "syn"

Code(m, cap, f) ==
    CASE cap = "udp_refused" -> [out |-> "error", dialed |-> FALSE, notsup |-> FALSE, fallback |-> FALSE]
      [] m = "syn"  -> [out |-> SynAttempt(f, FALSE), dialed |-> FALSE, notsup |-> FALSE, fallback |-> FALSE]
      [] m = "sack" -> LET a == SackAttempt(cap, f) IN [out |-> a[1], dialed |-> f # "filter1", notsup |-> a[2], fallback |-> FALSE]
      [] m = "prefer_sack" ->
            LET a == SackAttempt(cap, f) IN
            \* errors.As(NotSupportedError) -> doSyn(); an injected failure that the SACK attempt did not reach (faults are the
            \* k-th call of an operation, counted over the request) now hits the SYN attempt
            IF a[2] THEN [out |-> IF f = "none" THEN "syn" ELSE "error", dialed |-> TRUE, notsup |-> FALSE, fallback |-> TRUE]
            ELSE [out |-> a[1], dialed |-> f # "filter1", notsup |-> FALSE, fallback |-> FALSE]

Unavailable(cap) == cap \in {"port_closed", "unreachable", "no_sackperm", "ack_nosack"}
\* the faults that hit the SACK attempt before its capability is known
Before(cap, f) == f = "filter1" \/ (f = "read_fatal" /\ cap \notin {"port_closed", "unreachable"})
                  \/ (f \in {"filter2", "write1"} /\ cap \in {"sack_ok", "sack_ok_ts", "ack_nosack"})

VARIABLES c, dec
Init == c \in [m : Methods, cap : Caps, f : Faults] /\ dec = [out |-> "unset"]
Decide == dec.out = "unset" /\ dec' = Code(c.m, c.cap, c.f) /\ UNCHANGED c
Spec == Init /\ [][Decide]_<<c, dec>>

C20_Design ==
    dec.out # "unset" =>
      /\ (c.m = "syn" => ~dec.dialed /\ dec.out # "sack")                         \* syn: no TCP connection, never a SACK trace
      /\ (c.m = "sack" => dec.out \in {"sack", "error"})                          \* sack: SACK trace or error, never masked
      /\ (c.m = "prefer_sack" =>
            /\ (dec.fallback <=> (Unavailable(c.cap) /\ ~Before(c.cap, c.f)))      \* SYN path exactly when SACK is unavailable
            /\ (~dec.fallback => dec.out \in {"sack", "error"}))                  \* any other SACK failure is reported
      /\ (dec.out = "sack" => c.cap \in {"sack_ok", "sack_ok_ts"} /\ c.f = "none")
=============================================================================
