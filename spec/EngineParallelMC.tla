-------------------------- MODULE EngineParallelMC --------------------------
(* Model instances of EngineParallel: the free-driver script space. *)
EXTENDS EngineParallel, Json, IOUtils

R(t, d, dl, ip) == [ttl |-> t, dest |-> d, delay |-> dl, ip |-> ip, err |-> ""]
E(kind, dl) == [ttl |-> 0, dest |-> FALSE, delay |-> dl, ip |-> 0, err |-> kind]

\* what the probe for TTL t may trigger (own-TTL replies, duplicates, destination replies, a destination reply
\* replacing a router reply for the same TTL, late replies, replies credited to ANOTHER in-range TTL, retryable junk)
Opts(t) == { <<>>,
             <<R(t, FALSE, 1, t)>>,
             <<R(t, FALSE, 7, t)>>,
             <<R(t, TRUE, 4, 100)>>,
             <<R(t, FALSE, 1, t), R(t, TRUE, 4, 100)>>,
             <<R(t, FALSE, 1, t), R(t, FALSE, 7, 50 + t)>>,
             <<R(t, TRUE, 2, 100), R(t, FALSE, 3, t)>>,
             <<E("bad", 1), R(t, FALSE, 2, t)>>,
             <<E("bad", 5), R(t, FALSE, 6, t)>>,
             <<R(t, FALSE, 13, t)>> }
SmallScripts == {s \in [MinTTL..MaxTTL -> UNION {Opts(t) : t \in MinTTL..MaxTTL}] : \A t \in MinTTL..MaxTTL : s[t] \in Opts(t)}

\* scripts with faults and foreign-TTL credit (smaller product: only on the first two TTLs)
FaultOpts(t) == { <<E("fatal", 2)>>, <<E("nil", 2)>>, <<E("sendfail", 0)>>, <<R(MinTTL - 1, FALSE, 1, 9)>>, <<R(MinTTL - 1, TRUE, 1, 9)>>, <<R(1, TRUE, 1, 9)>>, <<R(MaxTTL + 1, TRUE, 1, 9)>>,
                  <<R(MaxTTL, TRUE, 1, 100)>>, <<R(MinTTL, FALSE, 3, 60)>>, <<E("nopkt", 1), E("bad", 1)>> }
FaultScripts == {s \in [MinTTL..MaxTTL -> UNION {Opts(t) \cup FaultOpts(t) : t \in MinTTL..MaxTTL}] :
                    /\ \A t \in MinTTL..MaxTTL : s[t] \in Opts(t) \cup FaultOpts(t)
                    /\ \E t \in MinTTL..MaxTTL : s[t] \in FaultOpts(t)
                    /\ \A t \in (MinTTL + 2)..MaxTTL : s[t] \in {<<>>, <<R(t, FALSE, 1, t)>>}}

\* 255-TTL range with a handful of answering TTLs (boundary arithmetic of the result table)
SparseScripts == { [t \in MinTTL..MaxTTL |-> IF t = a THEN <<R(t, FALSE, 1, 7)>> ELSE IF t = b THEN <<R(t, d, 2, 100)>> ELSE <<>>] :
                     a \in {MinTTL, 128}, b \in {2, 200, MaxTTL}, d \in BOOLEAN }
\* binding of the proof module ClipProof (TLAPS: Shape(Clip(res)) for ANY first/last TTL and ANY table satisfying ResOK):
\* its verbatim copies of Clip / Shape agree with the originals on every reachable state, and the engine maintains its hypothesis
CP == INSTANCE ClipDefs
ClipCopyAgrees == CP!Clip(results) = Clip(results) /\ (CP!Shape(Clip(results)) <=> Shape(Clip(results)))
ClipHyp == CP!ResOK(results)
NoCancel == {0 - 1}
CancelGrid == {0 - 1, 0, 1, 2, 3, 5, 8}

\* print (script, cancelAt, out) at every terminal state: the set of outputs the design allows per scenario
EmitOut == (out.set /\ IOEnv.VT_EMIT = "1") =>
              PrintT(<<"OUT", ToJson([script |-> script, cancel |-> cancelAt, min |-> MinTTL, max |-> MaxTTL,
                                      timeout |-> Timeout, poll |-> Poll, delay |-> Delay]), ToJson(out)>>)
=============================================================================
