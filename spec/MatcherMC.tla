----------------------------- MODULE MatcherMC -----------------------------
(***************************************************************************)
(* Exhaustive design check of the matchers (C01 soundness, C02 recognition,*)
(* C04 destination marking) over the perturbation lattice:                 *)
(*   every variant x strict/relaxed x identifier base (mid, wrap, zero)    *)
(*   x TTL range x every prefix of sent probes                             *)
(*   x every genuine reply form for every TTL (sent or not)                *)
(*   x every single-field perturbation of it.                              *)
(* The packets are abstract views with the same fields as the trace's.     *)
(***************************************************************************)
EXTENDS Matcher, SequencesExt

Variants == {"icmp4", "icmp6", "udp4", "udp6", "tcp", "tcp_paris", "sack"}
IsV6(v) == v \in {"icmp6", "udp6"}
LOCAL_(v)  == IF IsV6(v) THEN "2001:db8:77::1" ELSE "10.77.0.1"
TARGET_(v) == IF IsV6(v) THEN "2001:db8:99::9" ELSE "198.51.100.9"
Others(v) == IF IsV6(v) THEN {"2001:db8:77::2", "2001:db8:99::a", "fd00::7"} ELSE {"10.77.0.2", "198.51.100.10", "10.9.0.1"}
ROUTER_(v) == IF IsV6(v) THEN "fd00::1" ELSE "10.1.0.1"
SP == 40000  DP == 33434

Bases == { [name |-> "mid",  ipid |-> 41821, echo |-> 40001, seq |-> <<4660, 22136>>],
           [name |-> "wrap", ipid |-> 65533, echo |-> 65534, seq |-> <<65535, 65533>>],
           [name |-> "zero", ipid |-> 65535, echo |-> 0,     seq |-> <<0, 0>>] }
Ranges == {<<1, 3>>, <<253, 255>>}

Zero32 == <<0, 0>>
BlankView == [v |-> 4, src |-> "", dst |-> "", kind |-> "other", ipttl |-> 64, ipid |-> 0, proto |-> 0, icode |-> 0, csum_ok |-> TRUE,
              eid |-> 0, eseq |-> 0, sport |-> 0, dport |-> 0, seq |-> Zero32, ack |-> Zero32, flags |-> 0, sack |-> <<>>, ulen |-> 0,
              q |-> FALSE, q_hdr |-> FALSE, q_echo |-> FALSE, q_src |-> "", q_dst |-> "", q_proto |-> 0, q_ipid |-> 0,
              q_sport |-> 0, q_dport |-> 0, q_seq |-> Zero32, q_eid |-> 0, q_eseq |-> 0, q_ulen |-> 0]

\* paris mode: a distinct "random" sequence number per probe
ParisSeq(b, t) == Add32(b.seq, 7919 * (t % 8) + t)

\* the probe the code emits for ttl t (identifier schemes of icmp_packet.go, udpv4.go, tcp_driver.go, sack_packet.go)
Probe(v, b, t) ==
    LET base == [BlankView EXCEPT !.v = IF IsV6(v) THEN 6 ELSE 4, !.src = LOCAL_(v), !.dst = TARGET_(v), !.ipttl = t]
    IN CASE IsICMPv(v) -> [base EXCEPT !.kind = "echo_req", !.proto = IF IsV6(v) THEN 58 ELSE 1, !.eid = b.echo, !.eseq = t,
                                      !.ipid = IF IsV6(v) THEN 0 ELSE b.echo]
         [] v = "udp4" -> [base EXCEPT !.kind = "udp", !.proto = 17, !.sport = SP, !.dport = DP, !.ipid = (41821 + t) % 65536, !.ulen = 16]
         [] v = "udp6" -> [base EXCEPT !.kind = "udp", !.proto = 17, !.sport = SP, !.dport = DP, !.ulen = 8 + 5 + t]
         [] v = "tcp"  -> [base EXCEPT !.kind = "tcp", !.proto = 6, !.sport = SP, !.dport = DP, !.flags = SYN,
                                      !.ipid = (b.ipid + t) % 65536, !.seq = b.seq]
         [] v = "tcp_paris" -> [base EXCEPT !.kind = "tcp", !.proto = 6, !.sport = SP, !.dport = DP, !.flags = SYN,
                                      !.ipid = 41821, !.seq = ParisSeq(b, t)]
         [] v = "sack" -> [base EXCEPT !.kind = "tcp", !.proto = 6, !.sport = SP, !.dport = DP, !.flags = ACK + PSH,
                                      !.ipid = 41821, !.seq = Add32(b.seq, t)]

\* an ICMP error quoting probe p
ErrReply(v, p, kind, code, from) ==
    [BlankView EXCEPT !.v = p.v, !.src = from, !.dst = p.src, !.kind = kind, !.icode = code, !.proto = IF p.v = 6 THEN 58 ELSE 1,
        !.q = TRUE, !.q_hdr = TRUE, !.q_echo = (p.kind = "echo_req"), !.q_src = p.src, !.q_dst = p.dst, !.q_proto = p.proto,
        !.q_ipid = p.ipid, !.q_sport = p.sport, !.q_dport = p.dport, !.q_seq = p.seq, !.q_eid = p.eid, !.q_eseq = p.eseq,
        !.q_ulen = p.ulen]
TcpReply(p, flags, ack, sack) ==
    [BlankView EXCEPT !.v = 4, !.src = p.dst, !.dst = p.src, !.kind = "tcp", !.proto = 6, !.sport = p.dport, !.dport = p.sport,
        !.flags = flags, !.ack = ack, !.sack = sack, !.seq = <<20818, 20818>>]

\* genuine replies (the device catalogue at the abstraction level of views)
GenuineReplies(v, b, p) ==
    {ErrReply(v, p, "te", 0, ROUTER_(v)), ErrReply(v, p, "te", 0, TARGET_(v))}
    \cup (CASE IsICMPv(v) -> {[BlankView EXCEPT !.v = p.v, !.src = p.dst, !.dst = p.src, !.kind = "echo_rep", !.proto = p.proto,
                                                 !.eid = p.eid, !.eseq = p.eseq]}
            [] IsUDPv(v)  -> {ErrReply(v, p, "du", 3, TARGET_(v)), ErrReply(v, p, "du", 1, ROUTER_(v)), ErrReply(v, p, "du", 13, TARGET_(v))}
            [] IsSYNv(v)  -> {TcpReply(p, SYN + ACK, Add32(p.seq, 1), <<>>), TcpReply(p, RST, Zero32, <<>>), TcpReply(p, RST + ACK, Add32(p.seq, 1), <<>>)}
            [] IsSACKv(v) -> {TcpReply(p, ACK, b.seq, <<p.seq>>), TcpReply(p, ACK, b.seq, <<Add32(p.seq, 1), p.seq>>),
                              TcpReply(p, ACK, b.seq, <<p.seq, Add32(p.seq, 2), Add32(p.seq, 1)>>)})

\* single-field perturbations
AltAddr(v, a) == Others(v) \cup ({LOCAL_(v), TARGET_(v)} \ {a})
Alt16(x) == {(x + 1) % 65536, (x + 256) % 65536, (x + 512) % 65536, (x + 32768) % 65536, (x + 65535) % 65536, (x + 65280) % 65536}
Alt32(x) == {Add32(x, 1), Add32(x, 256), <<(x[1] + 1) % 65536, x[2]>>, <<(x[1] + 256) % 65536, x[2]>>, <<(x[1] + 65535) % 65536, x[2]>>}

Perturb(v, g) ==
    LET A(f) == {[g EXCEPT ![f] = a] : a \in AltAddr(v, g[f])}
        N(f) == {[g EXCEPT ![f] = a] : a \in Alt16(g[f])}
        W(f) == {[g EXCEPT ![f] = a] : a \in Alt32(g[f])}
    IN IF g.kind \in {"te", "du"}
       THEN A("q_src") \cup A("q_dst") \cup N("q_sport") \cup N("q_dport") \cup N("q_ipid") \cup W("q_seq")
            \cup N("q_eid") \cup N("q_eseq") \cup N("q_ulen")
            \cup {[g EXCEPT !.q = FALSE], [g EXCEPT !.q = FALSE, !.q_hdr = FALSE], [g EXCEPT !.icode = 1], [g EXCEPT !.kind = "icmp_other"]}
       ELSE IF g.kind = "echo_rep"
       THEN A("src") \cup A("dst") \cup N("eid") \cup N("eseq")
       ELSE A("src") \cup A("dst") \cup N("sport") \cup N("dport") \cup W("ack")
            \cup {[g EXCEPT !.flags = f] : f \in {ACK, SYN, RST + SYN, FIN + ACK, ACK + PSH, 0}}
            \cup (IF Len(g.sack) > 0 THEN {[g EXCEPT !.sack = <<a>>] : a \in Alt32(g.sack[1])} \cup {[g EXCEPT !.sack = <<>>]} ELSE {})

VARIABLES cfg, n, d, res, gen
vars == <<cfg, n, d, res, gen>>

Par(c) == [variant |-> c.v, strict |-> c.strict, min |-> c.rng[1], max |-> c.rng[2]]
Sent(c, k) == [j \in 1..k |-> Probe(c.v, c.b, c.rng[1] + j - 1)]
FlowOf(c) == LET p == Probe(c.v, c.b, c.rng[1]) IN
             [src |-> p.src, dst |-> p.dst, sport |-> p.sport, dport |-> p.dport, eid |-> p.eid, v |-> p.v, isn |-> c.b.seq]
Count(c) == c.rng[2] - c.rng[1] + 1

Universe(c) ==
    UNION { LET p == Probe(c.v, c.b, t) G == GenuineReplies(c.v, c.b, p)
            IN {[g |-> TRUE, t |-> t, pk |-> x] : x \in G} \cup {[g |-> FALSE, t |-> t, pk |-> y] : y \in UNION {Perturb(c.v, x) : x \in G}}
          : t \in c.rng[1]..c.rng[2] }

None == [g |-> FALSE, t |-> 0, pk |-> BlankView]
Init == /\ cfg \in {[v |-> v, strict |-> s, b |-> b, rng |-> r] : v \in Variants, s \in BOOLEAN, b \in Bases, r \in Ranges}
        /\ n = 0 /\ d = None /\ res = Skip /\ gen = FALSE
\* (a state with a processed packet is terminal: the matchers keep no state between packets besides `sent`)
SendNext == d = None /\ n < Count(cfg) /\ n' = n + 1 /\ d' = None /\ res' = Skip /\ UNCHANGED <<cfg, gen>>
\* both engines read only after the first probe was written (hasSent gate / serial loop order)
Arrive == /\ n >= 1 /\ d = None
          /\ \E x \in Universe(cfg) :
            /\ d' = x
            /\ res' = Match(Par(cfg), FlowOf(cfg), Sent(cfg, n), x.pk)
            /\ UNCHANGED <<cfg, n, gen>>
Next == SendNext \/ Arrive
Spec == Init /\ [][Next]_vars

---------------------------------------------------------------------------
sentNow == Sent(cfg, n)
\* C01 at design level: a hop is credited only to a sent probe that the packet answers (SYN caveat: last sent)
C01_Design ==
    res.k = "hop" =>
        /\ res.j \in 1..n /\ sentNow[res.j].ipttl = res.ttl /\ res.ip = d.pk.src
        /\ \/ Quotes(cfg.v, cfg.strict, sentNow[res.j], d.pk)
           \/ ~IsSYNv(cfg.v) /\ Direct(cfg.v, sentNow[res.j], d.pk)
           \/ IsSYNv(cfg.v) /\ ~Caveat(cfg.v, d.pk) /\ Direct(cfg.v, sentNow[res.j], d.pk)
           \/ Caveat(cfg.v, d.pk) /\ res.j = n /\ \E k \in 1..n : Direct(cfg.v, sentNow[k], d.pk)

\* C02 at design level: every catalogue-form genuine reply to a sent probe yields that probe's hop
C02_Design ==
    LET j == d.t - cfg.rng[1] + 1 IN
    (d.g /\ j \in 1..n /\ InCatalogue(cfg.v, d.pk) /\ (IsSYNv(cfg.v) /\ d.pk.kind = "tcp" => j = n)) =>
        /\ res.k = "hop" /\ res.ttl = d.t /\ res.ip = d.pk.src /\ res.j = j

\* C04 at design level
C04_Design ==
    res.k = "hop" => (res.dest <=> (d.pk.src = FlowOf(cfg).dst /\ \E k \in 1..n : DestForm(cfg.v, sentNow[k], d.pk)))

\* C11 at design level: a concurrent run B to the same target (its own echo id / reserved source port / IP-ID block /
\* initial sequence number, as the allocators and sockets hand them out) never turns a genuine reply to A's probes into a hop.
\* (udp/tcp: strict quoted-source checking, which is what RunTraceroute uses; sack: relaxed, ISNs more than 255 apart)
ProbeB(v, b, t) ==
    LET p == Probe(v, b, t) IN
    CASE IsICMPv(v) -> [p EXCEPT !.eid = (p.eid + 1) % 65536, !.ipid = IF IsV6(v) THEN 0 ELSE (p.eid + 1) % 65536]
      [] IsUDPv(v)  -> [p EXCEPT !.sport = p.sport + 1]
      [] v = "tcp"  -> [p EXCEPT !.sport = p.sport + 1, !.ipid = (p.ipid + 255) % 65536, !.seq = Add32(p.seq, 7777)]
      [] v = "tcp_paris" -> [p EXCEPT !.sport = p.sport + 1, !.seq = Add32(p.seq, 7777)]
      [] v = "sack" -> [p EXCEPT !.sport = p.sport + 1, !.seq = Add32(p.seq, 1000)]
SentB(c, k) == [j \in 1..k |-> ProbeB(c.v, c.b, c.rng[1] + j - 1)]
FlowB(c) == LET p == ProbeB(c.v, c.b, c.rng[1]) IN
            [src |-> p.src, dst |-> p.dst, sport |-> p.sport, dport |-> p.dport, eid |-> p.eid, v |-> p.v, isn |-> Add32(c.b.seq, 1000)]
C11_Design ==
    (d.g /\ (cfg.strict \/ cfg.v = "sack" \/ IsICMPv(cfg.v))) =>
        Match(Par(cfg), FlowB(cfg), SentB(cfg, Count(cfg)), d.pk).k # "hop"

\* a matcher never reports a TTL outside the probed range (validateProbe would make it fatal) and never errors fatally
C09_Design == res.k # "fatal" /\ (res.k = "hop" => res.ttl \in cfg.rng[1]..cfg.rng[2])

\* the only packet that ends a run: an ACK on the probed connection without SACK blocks
Unsup_Design == res.k = "unsup" => (cfg.v = "sack" /\ d.pk.kind = "tcp" /\ Len(d.pk.sack) = 0 /\ ReverseTuple(Probe(cfg.v, cfg.b, cfg.rng[1]), d.pk))
=============================================================================
