----------------------------- MODULE ClipProof -----------------------------
(* Unbounded (any first / last TTL, any result table) proof of the shape property C03 for the pure function Clip of   *)
(* EngineParallel (clipResults + ToHops): checked by the TLA+ proof system, complementing TLC's bounded exploration.  *)
EXTENDS ClipDefs, NaturalsInduction, SequenceTheorems, TLAPS

THEOREM ClipShape ==
    ASSUME MinTTL \in Nat, MaxTTL \in Nat, MinTTL >= 1, MinTTL <= MaxTTL,
           NEW res, ResOK(res)
    PROVE  Shape(Clip(res))
<1> DEFINE D == {t \in TTLs : res[t].k = "hop" /\ res[t].dest}
<1> DEFINE last == IF D = {} THEN MaxTTL ELSE CHOOSE t \in D : \A u \in D : t <= u
<1>1. TTLs = MinTTL..MaxTTL /\ Count = MaxTTL - MinTTL + 1
  BY DEF TTLs, Count
<1>2. last \in TTLs /\ (D # {} => (last \in D /\ \A u \in D : last <= u)) /\ (D = {} => last = MaxTTL)
  <2>1. CASE D = {}
    BY <2>1, <1>1
  <2>2. CASE D # {}
    <3>1. D \subseteq Int /\ D \subseteq MinTTL..MaxTTL
      BY <1>1
    <3>2. \E t \in D : \A u \in D : t <= u
      <4> DEFINE P(n) == \A S \in SUBSET (MinTTL..MaxTTL) : (\E x \in S : x <= MinTTL + n) => \E t \in S : \A u \in S : t <= u
      <4>1. P(0)
        OBVIOUS
      <4>2. \A n \in Nat : P(n) => P(n + 1)
        OBVIOUS
      <4>3. \A n \in Nat : P(n)
        BY <4>1, <4>2, NatInduction, Isa
      <4>4. \E x \in D : x <= MinTTL + (MaxTTL - MinTTL)
        BY <2>2, <3>1
      <4>5. MaxTTL - MinTTL \in Nat
        OBVIOUS
      <4> QED BY <4>3, <4>4, <4>5, <3>1
    <3> QED BY <2>2, <3>2, <3>1
  <2> QED BY <2>1, <2>2
<1>3. Clip(res) = [k \in 1..(last - MinTTL + 1) |-> res[MinTTL + k - 1]]
  BY DEF Clip
<1> HIDE DEF last
<1>2a. \A t \in TTLs : t < last => ~(res[t].k = "hop" /\ res[t].dest)
  <2> SUFFICES ASSUME NEW t \in TTLs, t < last, res[t].k = "hop" /\ res[t].dest
               PROVE  FALSE
    OBVIOUS
  <2>1. t \in D
    OBVIOUS
  <2>2. last <= t /\ last \in Int /\ t \in Int
    BY <2>1, <1>2, <1>1
  <2> QED BY <2>2
<1>2b. last < MaxTTL => (res[last].k = "hop" /\ res[last].dest)
  <2>1. CASE D = {}
    BY <2>1, <1>2, <1>1
  <2>2. CASE D # {}
    <3>1. last \in D
      BY <2>2, <1>2
    <3> QED BY <3>1
  <2> QED BY <2>1, <2>2
<1> HIDE DEF D
<1> DEFINE hops == [k \in 1..(last - MinTTL + 1) |-> res[MinTTL + k - 1]]
<1>3a. last \in Int /\ last >= MinTTL /\ last <= MaxTTL /\ last - MinTTL + 1 \in Nat
  <2>1. last \in MinTTL..MaxTTL
    BY <1>2, <1>1
  <2> QED BY <2>1
<1>4. Len(hops) = last - MinTTL + 1 /\ DOMAIN hops = 1..(last - MinTTL + 1)
  <2> DEFINE n == last - MinTTL + 1
  <2>1. n \in Nat
    BY <1>3a
  <2>2. hops = [k \in 1..n |-> res[MinTTL + k - 1]]
    OBVIOUS
  <2>3. DOMAIN hops = 1..n
    BY <2>2
  <2> DEFINE HopRec == {res[t] : t \in TTLs}
  <2>4a. \A i \in 1..n : res[MinTTL + i - 1] \in HopRec
    BY <1>3a, <1>1 DEF ResOK
  <2>4b. hops \in Seq(HopRec)
    <3> DEFINE e(i) == res[MinTTL + i - 1]
    <3>1. \A i \in 1..n : e(i) \in HopRec
      BY <2>4a
    <3>2. [i \in 1..n |-> e(i)] \in Seq(HopRec)
      BY <2>1, <3>1, IsASeq
    <3> QED BY <3>2, <2>2
  <2>4c. DOMAIN hops = 1..Len(hops) /\ Len(hops) \in Nat
    BY <2>4b, LenProperties
  <2>4. Len(hops) = n
    BY <2>4c, <2>3, <2>1
  <2> QED BY <2>3, <2>4
<1>5. Shape(hops)
  <2>1. Len(hops) >= 1 /\ Len(hops) <= Count
    BY <1>4, <1>3a, <1>1
  <2>2. \A k \in 1..(Len(hops) - 1) : ~(hops[k].k = "hop" /\ hops[k].dest)
    BY <1>4, <1>3a, <1>2a, <1>1
  <2>3. Len(hops) < Count => (hops[Len(hops)].k = "hop" /\ hops[Len(hops)].dest)
    BY <1>4, <1>3a, <1>2b, <1>1
  <2>4. \A k \in DOMAIN hops : hops[k].k = "hop" => hops[k].ttl = MinTTL + k - 1
    BY <1>4, <1>3a, <1>1 DEF ResOK
  <2> QED BY <2>1, <2>2, <2>3, <2>4 DEF Shape
<1> QED BY <1>3, <1>5
=============================================================================
