----------------------------- MODULE ResultAlg -----------------------------
(***************************************************************************)
(* The post-processing pipeline (result/result.go) as a document algebra:  *)
(*   Enrich  (reverse DNS per address, failures leave names empty)         *)
(*   Normalize = ids, reachable, hop-count stats, e2e stats (5 passes)     *)
(*   Redact  (private hops -> TTL-only placeholders)                       *)
(* in the order RunTraceroute applies them, over integers: RTTs are whole  *)
(* milliseconds in the model, statistics are compared in 1/1000 ms with    *)
(* averages as (sum, count) pairs (cross-multiplication).                  *)
(* A document: [runs |-> <<[dst, hops |-> <<[a, rtt, dest]>>]>>, rtts].    *)
(* An address a: [s |-> text form, b |-> bytes (0, 4 or 16)].              *)
(***************************************************************************)
EXTENDS Integers, Sequences, FiniteSets, TLC, SequencesExt

Addr(s, b) == [s |-> s, b |-> b]
NoAddr == Addr("", <<>>)
\* every private-block boundary, the adjacent public addresses, mapped forms
V4Bounds == { Addr("9.255.255.255", <<9, 255, 255, 255>>), Addr("10.0.0.0", <<10, 0, 0, 0>>), Addr("10.255.255.255", <<10, 255, 255, 255>>),
              Addr("11.0.0.0", <<11, 0, 0, 0>>), Addr("172.15.255.255", <<172, 15, 255, 255>>), Addr("172.16.0.0", <<172, 16, 0, 0>>),
              Addr("172.31.255.255", <<172, 31, 255, 255>>), Addr("172.32.0.0", <<172, 32, 0, 0>>), Addr("192.167.255.255", <<192, 167, 255, 255>>),
              Addr("192.168.0.0", <<192, 168, 0, 0>>), Addr("192.168.255.255", <<192, 168, 255, 255>>), Addr("192.169.0.0", <<192, 169, 0, 0>>),
              Addr("8.8.8.8", <<8, 8, 8, 8>>), Addr("198.51.100.9", <<198, 51, 100, 9>>) }
Z(n) == [i \in 1..n |-> 0]
F(n) == [i \in 1..n |-> 255]
V6Bounds == { Addr("fbff:ffff:ffff:ffff:ffff:ffff:ffff:ffff", <<251>> \o F(15)), Addr("fc00::", <<252>> \o Z(15)),
              Addr("fdff:ffff:ffff:ffff:ffff:ffff:ffff:ffff", <<253>> \o F(15)), Addr("fe00::", <<254>> \o Z(15)),
              Addr("fd00::1", <<253>> \o Z(14) \o <<1>>), Addr("2001:db8::1", <<32, 1, 13, 184>> \o Z(11) \o <<1>>) }
Mapped == { Addr("10.0.0.1", Z(10) \o <<255, 255, 10, 0, 0, 1>>), Addr("8.8.4.4", Z(10) \o <<255, 255, 8, 8, 4, 4>>),
            Addr("192.168.1.1", Z(10) \o <<255, 255, 192, 168, 1, 1>>), Addr("172.32.0.1", Z(10) \o <<255, 255, 172, 32, 0, 1>>) }
AllAddrs == V4Bounds \cup V6Bounds \cup Mapped \cup {NoAddr}

\* RFC 1918 / RFC 4193 (the meaning of "private"), on the address bytes; IPv4-mapped forms count as their IPv4 address
IsMapped(b) == Len(b) = 16 /\ SubSeq(b, 1, 10) = Z(10) /\ b[11] = 255 /\ b[12] = 255
V4Of(b) == IF Len(b) = 4 THEN b ELSE SubSeq(b, 13, 16)
IsPrivate(b) ==
    IF Len(b) = 4 \/ IsMapped(b)
    THEN LET v == V4Of(b) IN v[1] = 10 \/ (v[1] = 172 /\ v[2] \in 16..31) \/ (v[1] = 192 /\ v[2] = 168)
    ELSE Len(b) = 16 /\ b[1] \in {252, 253}

\* ---- the pipeline ---------------------------------------------------------
\* names: function from address text to the resolver's answer (sequence of names; <<>> on failure / empty)
EnrichHop(h, names) == h @@ [names |-> IF h.a.s \in DOMAIN names THEN names[h.a.s] ELSE <<>>]
Positive(s) == SelectSeq(s, LAMBDA x : x > 0)
SumSeq(s) == FoldLeft(LAMBDA acc, x : acc + x, 0, s)
MinSeq(s) == CHOOSE x \in ToSet(s) : \A y \in ToSet(s) : x <= y
MaxSeq(s) == CHOOSE x \in ToSet(s) : \A y \in ToSet(s) : x >= y
AbsV(x) == IF x < 0 THEN 0 - x ELSE x
HopCount(hops) == LET R == {k \in DOMAIN hops : hops[k].a.s # ""} IN IF R = {} THEN Len(hops) ELSE CHOOSE k \in R : \A j \in R : k >= j
JitterSum(v) == SumSeq([k \in 1..(Len(v) - 1) |-> AbsV(v[k + 1] - v[k])])

\* the finished document in the units of the trace (milli-ms); averages as [sum, n] pairs
Process(doc, enrich, names, redact) ==
    LET hopOut(h, k) ==
            LET e == IF enrich THEN EnrichHop(h, names) ELSE h @@ [names |-> <<>>] IN
            IF redact /\ IsPrivate(h.a.b)
            THEN [ttl |-> k, ip_address |-> "", rtt |-> 0, reachable |-> FALSE, names |-> <<>>]
            ELSE [ttl |-> k, ip_address |-> h.a.s, rtt |-> h.rtt * 1000, reachable |-> (h.a.s # ""), names |-> e.names]
        runs == [r \in DOMAIN doc.runs |-> [hops |-> [k \in DOMAIN doc.runs[r].hops |-> hopOut(doc.runs[r].hops[k], k)]]]
        hcs == [r \in DOMAIN doc.runs |-> HopCount(doc.runs[r].hops)]
        v == Positive(doc.rtts)
    IN [runs |-> runs,
        hc |-> IF Len(doc.runs) = 0 THEN [min |-> 0, max |-> 0, sum |-> 0, n |-> 1]
               ELSE [min |-> MinSeq(hcs), max |-> MaxSeq(hcs), sum |-> SumSeq(hcs), n |-> Len(hcs)],
        sent |-> Len(doc.rtts), recv |-> Len(v),
        rmin |-> IF Len(v) = 0 THEN 0 ELSE MinSeq(v) * 1000, rmax |-> IF Len(v) = 0 THEN 0 ELSE MaxSeq(v) * 1000,
        rsum |-> SumSeq(v) * 1000, rn |-> IF Len(v) = 0 THEN 1 ELSE Len(v),
        jsum |-> IF Len(v) < 2 THEN 0 ELSE JitterSum(v) * 1000, jn |-> IF Len(v) < 2 THEN 1 ELSE Len(v) - 1]

\* ---- C16 relations on a finished document (model units) --------------------
C16_Relations(doc, o) ==
    /\ \A r \in DOMAIN o.runs : \A k \in DOMAIN o.runs[r].hops : o.runs[r].hops[k].reachable <=> (o.runs[r].hops[k].ip_address # "")
    /\ Len(doc.runs) > 0 =>
         /\ o.hc.min * o.hc.n <= o.hc.sum /\ o.hc.sum <= o.hc.max * o.hc.n
         /\ \E r \in DOMAIN doc.runs : o.hc.min <= Len(doc.runs[r].hops) /\ o.hc.min >= 1
         /\ \E r \in DOMAIN doc.runs : o.hc.max = HopCount(doc.runs[r].hops) /\ o.hc.max <= Len(doc.runs[r].hops)
    /\ o.sent = Len(doc.rtts) /\ o.recv = Len(Positive(doc.rtts)) /\ o.recv <= o.sent
    /\ o.recv > 0 => (o.rmin * o.rn <= o.rsum /\ o.rsum <= o.rmax * o.rn /\ o.rmin > 0)
    /\ 0 <= o.jsum /\ o.jsum <= (o.rmax - o.rmin) * o.jn
\* C17 on the model
C17_Relations(doc, o) ==
    \A r \in DOMAIN doc.runs :
        /\ Len(o.runs[r].hops) = Len(doc.runs[r].hops)
        /\ \A k \in DOMAIN doc.runs[r].hops :
             LET i == doc.runs[r].hops[k]  h == o.runs[r].hops[k] IN
             /\ h.ttl = k
             /\ IsPrivate(i.a.b) => (h.ip_address = "" /\ h.rtt = 0 /\ ~h.reachable /\ h.names = <<>>)
             /\ ~IsPrivate(i.a.b) => (h.ip_address = i.a.s /\ h.rtt = i.rtt * 1000)
=============================================================================
