------------------------------ MODULE TraceObs ------------------------------
(***************************************************************************)
(* L1 observer: consumes every event of an ndjson trace recorded from the  *)
(* REAL code (many scenarios concatenated, each starting with Begin),      *)
(* rebuilds the history record and evaluates the Props formulas on it.     *)
(* It contains no model of the implementation, so it can never get stuck;  *)
(* a formula that is FALSE is a property violated by real behaviour.       *)
(* Violations are reported through PrintT from an always-true invariant so *)
(* that one pass collects all of them.                                     *)
(***************************************************************************)
EXTENDS Conform, DocProps, EnrichProps, Json, IOUtils

Trace == ndJsonDeserialize(IOEnv.VT_TRACE)
Which == IOEnv.VT_PROPS        \* comma separated property ids to evaluate, e.g. "C01,C03"

VARIABLES l, H
vars == <<l, H>>

NoOut == [set |-> FALSE]
EmptyH == [scen |-> "", par |-> [variant |-> "none"], sent |-> <<>>, arr |-> <<>>, del |-> <<>>, fil |-> <<>>,
           twinof |-> "", hlog |-> <<>>, flt |-> <<>>, cancel |-> -1, out |-> NoOut, got |-> <<>>, due |-> <<>>, twin |-> NoOut]

\* The state keeps only LINE NUMBERS of the events (small states: TLC fingerprints every state); the history record the
\* Props formulas talk about is materialised from the trace when a scenario returns.
Step(h, e, ln) ==
    CASE e.event = "Begin"   -> [EmptyH EXCEPT !.scen = e.scen, !.twinof = e.twin,
                                   \* the output of the latest noise-free scenario (the twin when twinof names it)
                                   !.twin = IF h.out.set /\ h.twinof = "" THEN h.out ELSE h.twin]
      [] e.event = "Params"  -> [h EXCEPT !.par = e]
      [] e.event = "Send"    -> [h EXCEPT !.sent = Append(@, ln)]
      [] e.event = "Arrive"  -> [h EXCEPT !.arr = Append(@, ln)]
      [] e.event = "Deliver" -> [h EXCEPT !.del = Append(@, ln)]
      [] e.event = "Filtered" -> [h EXCEPT !.fil = Append(@, ln)]      \* rejected by the capture filter the code installed
      [] e.event \in {"Got", "Alloc"} -> [h EXCEPT !.got = Append(@, ln)]
      [] e.event = "Due"     -> [h EXCEPT !.due = Append(@, ln)]
      [] e.event \in {"Open", "Close", "SetFilter", "UseAfterClose", "Accept"} -> [h EXCEPT !.hlog = Append(@, ln)]
      [] e.event = "Fault"   -> [h EXCEPT !.flt = Append(@, ln)]
      [] e.event = "Cancel"  -> [h EXCEPT !.cancel = e.t]
      [] e.event = "Return"  -> [h EXCEPT !.out = [set |-> TRUE] @@ e]
      [] OTHER -> h

SentRec(e) == IF "p" \in DOMAIN e
              THEN [n |-> e.n, t |-> e.t, ttl |-> e.ttl, run |-> e.run, flow |-> e.flow, p |-> e.p]
              ELSE [n |-> e.n, t |-> e.t, ttl |-> e.ttl, run |-> 1, flow |-> 0, fail |-> e.fail]
Mat(h) == [h EXCEPT
    !.sent = [k \in DOMAIN h.sent |-> SentRec(Trace[h.sent[k]])],
    !.arr  = [k \in DOMAIN h.arr |-> LET e == Trace[h.arr[k]] IN [n |-> e.n, t |-> e.t, tag |-> e.tag, for_ttl |-> e.for_ttl, d |-> e.d]],
    !.del  = [k \in DOMAIN h.del |-> LET e == Trace[h.del[k]] IN [n |-> e.n, t |-> e.t, pkt |-> e.pkt, h |-> e.h, run |-> e.run]],
    !.fil  = [k \in DOMAIN h.fil |-> LET e == Trace[h.fil[k]] IN [n |-> e.n, t |-> e.t, pkt |-> e.pkt, h |-> e.h, run |-> e.run]],
    !.got  = [k \in DOMAIN h.got |-> Trace[h.got[k]]],
    !.due  = [k \in DOMAIN h.due |-> Trace[h.due[k]]],
    !.hlog = [k \in DOMAIN h.hlog |-> LET e == Trace[h.hlog[k]] IN [ev |-> e.event] @@ e],
    !.flt  = [k \in DOMAIN h.flt |-> Trace[h.flt[k]]]]

Init == l = 1 /\ H = EmptyH
Next == /\ l <= Len(Trace)
        /\ l' = l + 1
        /\ H' = Step(H, Trace[l], l)
Spec == Init /\ [][Next]_vars

---------------------------------------------------------------------------
Sub(a, b) == \E i \in 1..(Len(b) - Len(a) + 1) : SubSeq(b, i, i + Len(a) - 1) = a
Wants(p) == Sub(p, Which)

WireRun(h) == h.out.set /\ h.par.entry = "proto"
snt1(h) == SentOfRun(h, 1)
dl1(h) == DelOfRun(h, 1)

PropIds == {"C13", "C16", "C17", "C18", "C12", "C01", "C02", "C03", "C04", "C05", "C06", "C07", "C08", "C09", "C10", "C11", "C15", "C19", "C20"}
ReqRun(h) == h.out.set /\ h.par.entry = "run"
EngRun(h) == h.out.set /\ h.par.entry = "engine"

\* C09: the noisy run equals its noise-free twin, except for hops that an injected packet legitimately explains
\* (a damaged copy of a genuine reply can still be a reply that answers the probe: that is C01/C02's business)
IsInj(h, x) == Len(h.arr[x.pkt].tag) >= 4 /\ SubSeq(h.arr[x.pkt].tag, 1, 4) = "inj:"
InjAnswers(h, s, d, ttl, addr) ==
    \E i \in DOMAIN d : \E j \in DOMAIN s :
        /\ IsInj(h, d[i]) /\ s[j].ttl = ttl /\ PktOf(h, d[i]).src = addr
        /\ \/ Answers(V(h), h.par.strict, s[j].p, PktOf(h, d[i]))
           \/ Caveat(V(h), PktOf(h, d[i])) /\ \E k \in 1..j : Direct(V(h), s[k].p, PktOf(h, d[i]))
C09_twin(h, s, d) ==
    LET a == h.out.hops  b == h.twin.hops
        m == IF Len(a) < Len(b) THEN Len(a) ELSE Len(b)
        injDest == \E i \in DOMAIN d : \E j \in DOMAIN s : IsInj(h, d[i]) /\ DestForm(V(h), s[j].p, PktOf(h, d[i]))
                                                            /\ Answers(V(h), h.par.strict, s[j].p, PktOf(h, d[i]))
        \* random byte flips of genuine replies may still be replies (that is C01/C02's business on the exact
        \* perturbation lattice): for those batches only "no crash, no abort" is judged
        flips == \E i \in DOMAIN h.arr : Len(h.arr[i].tag) >= 8 /\ SubSeq(h.arr[i].tag, 1, 8) = "inj:flip"
    IN /\ h.out.panic = ""
       /\ h.out.ok = h.twin.ok
       /\ h.out.err.msg = h.twin.err.msg
       /\ flips \/
          /\ (Len(a) = Len(b) \/ injDest)
          /\ \A k \in 1..m : \/ (a[k].addr = b[k].addr /\ a[k].dest = b[k].dest /\ (injDest \/ a[k].rtt_us = b[k].rtt_us))
                              \/ InjAnswers(h, s, d, a[k].ttl, a[k].addr)

\* C12 (end to end): with the real programs applied by the capture handle the result equals the unfiltered twin's,
\* and each protocol installs the filter specification that fits its flow
C12_twin(h, s) ==
    LET fs == SelectSeq(h.hlog, LAMBDA e : e.ev = "SetFilter")
        tgt == h.par.target
        ap(a, p) == IF h.par.variant \in {"icmp6", "udp6"} THEN "[" \o a \o "]:" \o ToString(p) ELSE a \o ":" \o ToString(p)
    IN /\ h.out.ok = h.twin.ok /\ HopProj(h.out.hops) = HopProj(h.twin.hops) /\ h.out.err.msg = h.twin.err.msg
       /\ Len(fs) >= 1
       /\ CASE IsICMPv(V(h)) \/ IsUDPv(V(h)) -> Len(fs) = 1 /\ fs[1].ftype = 1
            [] IsSYNv(V(h)) -> /\ Len(fs) = 1 /\ fs[1].ftype = 3
                               /\ (Len(s) >= 1 => fs[1].fsrc = ap(s[1].p.dst, s[1].p.dport) /\ fs[1].fdst = ap(s[1].p.src, s[1].p.sport))
            [] IsSACKv(V(h)) -> /\ fs[1].ftype = 4
                                /\ (Len(fs) >= 2 => fs[2].ftype = 3)
                                /\ (Len(s) >= 1 => Len(fs) = 2 /\ fs[2].fsrc = ap(s[1].p.dst, s[1].p.dport) /\ fs[2].fdst = ap(s[1].p.src, s[1].p.sport))
            [] OTHER -> TRUE

\* arrivals on the wire that no capture handle of the run read or filtered: the run was not listening (any more)
Undelivered(h, d) ==
    LET seen == {d[i].pkt : i \in DOMAIN d} \cup {h.fil[i].pkt : i \in DOMAIN h.fil}
        idx == SelectSeq([k \in DOMAIN h.arr |-> k], LAMBDA k : k \notin seen)
    IN [i \in DOMAIN idx |-> [n |-> h.arr[idx[i]].n, t |-> h.arr[idx[i]].t, pkt |-> idx[i], h |-> 0, run |-> 1]]

\* is property p applicable to the finished scenario h / does it hold (evaluated lazily, only when applicable)
App(p, h) ==
    LET s == snt1(h)  ok == h.out.ok IN
    CASE h.out.set /\ h.par.entry = "crash" -> p \in {"C09", "C10", "C19"}     \* the process died (panic in a goroutine of the code)
      [] h.out.set /\ h.par.entry = "lab" -> (p = "C13" /\ h.par.bound_ms = 0 /\ ~h.par.srv /\ SubSeq(h.scen, 1, 4) = "C13/") \/ (p \in {"C12", "C02", "C09"} /\ Len(h.scen) > 4 /\ SubSeq(h.scen, 1, 4) = p \o "/") \/ (p = "C08" /\ h.par.bound_ms > 0) \/ (p = "C17" /\ h.par.skip) \/ (p = "C15" /\ h.par.srv)
      [] h.out.set /\ h.par.entry = "doc" -> p \in {"C16", "C17", "C18"} \/ (p = "C08" /\ h.par.docin.bound_us > 0)
      [] h.out.set /\ h.par.entry = "docstress" -> p = "C16"
      [] h.out.set /\ h.par.entry = "pubfetch" -> p = "C15"
      [] h.out.set /\ h.par.entry = "cache" -> p = "C18"
      [] h.out.set /\ h.par.entry = "pubip" -> p = "C18" \/ p = "C08"
      [] h.out.set /\ h.par.entry = "alloc" -> p = "C11"
      [] EngRun(h) -> p \in {"C03", "C05", "C06", "C08", "C10"} \/ (p = "C07" /\ h.par.variant = "engine_parallel")
      [] ReqRun(h) -> (p = "C18" /\ h.par.public_ip /\ h.cancel < 0) \/ (p = "C04" /\ h.par.via = "lib") \/ (p = "C11" /\ h.par.via = "lib") \/ p = "C15" \/ p = "C10" \/ (p = "C06" /\ h.par.via = "lib") \/ (p = "C01" /\ ((h.par.via = "lib" /\ h.par.tcp_method = "prefer_sack") \/ h.par.via = "http")) \/ (p = "C05" /\ h.par.via = "lib" /\ h.par.e2e > 0) \/ (p = "C16" /\ h.par.via = "http" /\ h.par.expect_status = 200) \/ (p = "C19" /\ h.par.expect.kind # "none") \/ (p = "C20" /\ h.par.expect20.out # "none") \/ (p = "C17" /\ Len(h.par.expect17.routers) > 0)
      [] p = "C11" -> WireRun(h) /\ h.par.concurrent > 1
      [] p \in {"C01", "C04", "C05"} -> WireRun(h) /\ ok /\ h.par.concurrent <= 1
      [] p \in {"C02", "C03"}        -> WireRun(h) /\ ok /\ Len(s) >= 1
      [] p \in {"C06", "C08", "C10"} -> WireRun(h)
      [] p = "C07" -> WireRun(h) /\ ok /\ ~IsSerial(V(h)) /\ Len(s) >= 1
      [] p = "C12" -> WireRun(h) /\ h.par.filter /\ h.twinof # "" /\ h.twin.set /\ h.twin.scen = h.twinof
      [] p = "C09" -> /\ WireRun(h) /\ h.twinof # "" /\ h.twin.set /\ h.twin.scen = h.twinof
                      \* the one packet that may end a run: an ACK on the probed SACK connection without SACK blocks
                      /\ ~(IsSACKv(V(h)) /\ \E i \in DOMAIN dl1(h) : \E j \in DOMAIN s :
                              LET x == PktOf(h, dl1(h)[i]) IN
                              x.kind = "tcp" /\ ReverseTuple(s[j].p, x) /\ Len(x.sack) = 0
                              /\ ~HasFlag(x, SYN) /\ ~HasFlag(x, FIN) /\ ~HasFlag(x, RST))
      [] OTHER -> FALSE

Holds(p, h) ==
    LET s == snt1(h)  d == dl1(h)  hp == h.out.hops IN
    CASE h.par.entry = "crash" -> FALSE
      [] h.par.entry = "lab" -> (IF p = "C08" THEN C08_lab(h) ELSE C13_lab(h))
      [] h.par.entry = "doc" -> (CASE p = "C16" -> C16_json(h.out) /\ (h.par.docin.rtt_div = 1 => Conforms(h.par.docin, h.out.doc))
                                   [] p = "C17" -> h.out.panic = "" /\ C17_json(h.par.docin, h.out)
                                   [] p = "C18" -> C18_json(h.par.docin, h.out) /\ C18_reprobe(h.par.docin, h.got)
                                   [] p = "C08" -> C08_doc(h.par.docin, h.out) [] OTHER -> TRUE)
      [] h.par.entry = "docstress" -> C16_ids(h.got)
      [] h.par.entry = "pubfetch" -> C15_fetch(h.got)
      [] h.par.entry = "cache" -> C18_cache(h.par.ttl_ms, h.got)
      [] h.par.entry = "pubip" -> (CASE p = "C18" -> (~h.par.expect.stalls => C18_pub(h.par.expect, h.got, h.out))
                                     [] p = "C08" -> C08_pub(h.par.expect, h.got, h.out) [] OTHER -> TRUE)
      [] h.par.entry = "alloc" -> C11_alloc(h)
      [] EngRun(h) -> (CASE p = "C03" -> C03_eng(h) [] p = "C05" -> C05_eng(h) [] p = "C06" -> C06_eng(h)
                          [] p = "C07" -> C07_eng(h) [] p = "C08" -> C08_eng(h) [] p = "C10" -> C10_eng(h) [] OTHER -> TRUE)
      [] ReqRun(h) -> (CASE p = "C18" -> C18_req(h) [] p = "C04" -> C04_req(h) [] p = "C11" -> C11_run(h) [] p = "C15" -> C15_run(h) /\ (h.par.via = "lib" => C15_samples(h)) [] p = "C10" -> C10_req(h) [] p = "C06" -> C06_req(h)
                          \* C05, last sentence: the end-to-end samples are the destination hops' RTTs of the e2e wire runs, 0 = no answer
                          [] p = "C05" -> C15_samples(h)
                          \* C01 at request level: every reported run is what its own wire run yields under the matcher of its variant
                          [] p = "C01" -> (IF h.par.via = "http" THEN C01_http(h) ELSE C11_run(h))
                          \* the answer of the server is ONE JSON document with the published fields (the harness decodes it; ok is false otherwise)
                          [] p = "C16" -> /\ h.out.status = 200 /\ h.out.ok /\ h.out.ctype = "application/json"
                                          \* identifiers of this answer and of the answers to the requests served at the same time: pairwise distinct
                                          /\ Cardinality({h.out.all_ids[i] : i \in DOMAIN h.out.all_ids}) = Len(h.out.all_ids) [] p = "C19" -> C19_run(h) [] p = "C20" -> C20_run(h) [] p = "C17" -> C17_run(h) [] OTHER -> TRUE)
      [] p = "C11" -> C11_same(h)
      [] p = "C01" -> C01_run(h, s, d, hp)
      \* completeness is owed to what ARRIVED at the host: a packet the installed capture filter rejected counts as arrived
      \* ... and so does a packet that arrived inside the window after a parallel run had already stopped listening
      [] p = "C02" -> C02_run(h, s, SortSeq(d \o (IF h.par.filter THEN SelectSeq(h.fil, LAMBDA x : x.run = 1) ELSE <<>>) \o Undelivered(h, d), LAMBDA a, b : a.n < b.n), hp)
      [] p = "C03" -> C03_run(h, s, d, hp)
      [] p = "C04" -> C04_run(h, s, d, hp)
      [] p = "C05" -> C05_run(h, s, d, hp)
      [] p = "C07" -> C07_run(h, s, d, hp)
      [] p = "C06" -> C06_Sends(h, s) /\ C06_Stop(h, s, d) /\ C06_Endpoints(h, s, h.out)
      [] p = "C08" -> C08_run(h)
      [] p = "C12" -> C12_twin(h, s)
      [] p = "C09" -> C09_twin(h, s, d)
      [] p = "C10" -> C10_run(h)
      [] OTHER -> TRUE

\* always TRUE; prints one line per violated (property, scenario)
Report ==
    H.out.set =>
      LET hm == Mat(H) IN
      \A p \in PropIds :
        (Wants(p) /\ App(p, hm) /\ ~Holds(p, hm)) => PrintT(<<"L1", p, H.scen, l>>)

\* L2: the design's prediction equals the real output (fault-free, uncancelled, filter-free wire runs)
\* (random byte flips of genuine replies are outside the design's packet model: whether a flipped reply is still decodable depends on
\* decoder details - e.g. the quoted total-length field - that Matcher.tla does not carry; such batches are judged by C09 only)
L2App(h) == h.par.entry # "crash" /\ WireRun(h) /\ ~h.par.realclock /\ h.par.concurrent <= 1 /\ Len(snt1(h)) >= 1 /\ Len(h.flt) = 0 /\ h.cancel < 0 /\ h.out.panic = ""
            /\ ~\E i \in DOMAIN h.arr : Len(h.arr[i].tag) >= 8 /\ SubSeq(h.arr[i].tag, 1, 8) = "inj:flip"
Drift ==
    (H.out.set /\ Wants("L2")) =>
      LET hm == Mat(H) IN
      (L2App(hm) /\ ~Agrees(hm, snt1(hm), dl1(hm))) => PrintT(<<"L2", "drift", H.scen, l>>)

\* S01 (extra, not a listed property): HTTP status mapping of the server; a failure is reported as drift
S01App(h) == h.out.set /\ h.par.entry = "run" /\ h.par.via = "http" /\ h.par.expect_status # 0
S01Holds(h) == /\ h.out.status = h.par.expect_status
               /\ (h.out.status = 200 /\ h.par.http_method # "HEAD" => h.out.ctype = "application/json")
DriftS01 == (H.out.set /\ Wants("L2") /\ S01App(H) /\ ~S01Holds(H)) => PrintT(<<"L2", "drift", H.scen, l>>)

\* S02 (extra): the command line surface - what the printed document shows of the flags (KernelPath!CliScen); drift only
S02App(h) == h.out.set /\ h.par.entry = "labcli"
S02Holds(h) ==
    LET ex == h.par.expect_cli  o == h.out IN
    /\ o.ok = ex.ok
    /\ ex.ok => /\ o.protocol = ex.protocol
                /\ Len(o.runs) = ex.runs
                /\ \A r \in DOMAIN o.runs : /\ o.runs[r].dst = ex.dst /\ o.runs[r].dport = ex.dport
                                              /\ Len(o.runs[r].hops) = ex.hoplen
                                              /\ \A k \in DOMAIN o.runs[r].hops : o.runs[r].hops[k].ttl = k
                /\ o.e2e_sent = ex.e2e
DriftS02 == (H.out.set /\ Wants("L2") /\ S02App(H) /\ ~S02Holds(H)) => PrintT(<<"L2", "drift", H.scen, l>>)

\* acceptance: the whole trace was consumed
Consumed == TLCGet("level") - 1 = Len(Trace) \/ TRUE
TraceAccepted == TLCGet("stats").diameter - 1 = Len(Trace)
=============================================================================
