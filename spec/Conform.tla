------------------------------ MODULE Conform ------------------------------
(***************************************************************************)
(* L2 binding of the design specs to the code: from the observable history *)
(* of a run (probes written, packets delivered, in log order) the design   *)
(* (Matcher.tla per packet + the engines' merge / window rules + Clip)     *)
(* PREDICTS the exact hop list and round-trip times.  TraceObs compares    *)
(* the prediction with what the real entry point returned; a difference    *)
(* with all property formulas true is "spec drift".                        *)
(***************************************************************************)
EXTENDS Matcher

NullR == [k |-> "none", ttl |-> 0, ip |-> "", dest |-> FALSE, j |-> 0, i |-> 0]

FlowOfTrace(H, snt) ==
    LET p == snt[1].p
        acc == SelectSeq(H.hlog, LAMBDA e : e.ev = "Accept" /\ e.lport = p.sport)
    IN [src |-> p.src, dst |-> p.dst, sport |-> p.sport, dport |-> p.dport, eid |-> p.eid, v |-> p.v,
        isn |-> IF Len(acc) > 0 THEN acc[1].isn ELSE <<0, 0>>]

SentViewsBefore(snt, n) == [j \in 1..Cardinality({j \in DOMAIN snt : snt[j].n < n}) |-> snt[j].p]

\* parallel merge rule (traceroute_parallel.go writeProbe): first wins, destination overrides non-destination
MergePar(acc, r) ==
    LET prev == acc.res[r.ttl]
    IN IF prev.k = "none" \/ (~prev.dest /\ r.dest) THEN [acc EXCEPT !.res[r.ttl] = r] ELSE acc
\* serial rule (traceroute_serial.go, after fix 570aa34): same keep-first rule; a destination reply ends the run
MergeSer(acc, r) == [MergePar(acc, r) EXCEPT !.done = r.dest]

RECURSIVE FoldDel(_, _, _, _, _, _)
FoldDel(H, snt, dl, flow, i, acc) ==
    IF i > Len(dl) \/ acc.err # "" \/ acc.done THEN acc
    ELSE LET sv == SentViewsBefore(snt, dl[i].n)
             r0 == IF Len(sv) = 0 THEN Skip ELSE Match(H.par, flow, sv, PktOf(H, dl[i]))
             r == r0 @@ [i |-> i]
         IN IF r.k = "hop"
            THEN FoldDel(H, snt, dl, flow, i + 1, IF IsSerial(V(H)) THEN MergeSer(acc, r) ELSE MergePar(acc, r))
            ELSE IF r.k \in {"unsup", "fatal"} THEN [acc EXCEPT !.err = r.k]
            ELSE FoldDel(H, snt, dl, flow, i + 1, acc)

\* clipResults + ToHops
Clip(par, res) ==
    LET D == {t \in par.min..par.max : res[t].k = "hop" /\ res[t].dest}
        last == IF D = {} THEN par.max ELSE Min(D)
    IN [k \in 1..(last - par.min + 1) |-> res[par.min + k - 1]]

Predict(H, snt, dl) ==
    LET acc0 == [res |-> [t \in 1..255 |-> NullR], err |-> "", done |-> FALSE]
        acc == FoldDel(H, snt, dl, FlowOfTrace(H, snt), 1, acc0)
    IN [err |-> acc.err,
        hops |-> LET c == Clip(H.par, acc.res) IN
                 [k \in DOMAIN c |-> IF c[k].k = "hop"
                                     THEN [ttl |-> H.par.min + k - 1, addr |-> c[k].ip, dest |-> c[k].dest,
                                           rtt_us |-> dl[c[k].i].t - snt[c[k].j].t]
                                     ELSE [ttl |-> H.par.min + k - 1, addr |-> "", dest |-> FALSE, rtt_us |-> 0]]]

\* does a reported hop list agree with the prediction?
AgreesWith(H, snt, dl, ok, hops) ==
    LET pr == Predict(H, snt, dl) IN
    IF pr.err # "" THEN ~ok
    ELSE /\ ok
         /\ Len(hops) = Len(pr.hops)
         /\ \A k \in DOMAIN pr.hops :
               LET a == hops[k]  b == pr.hops[k] IN
               a.ttl = b.ttl /\ a.addr = b.addr /\ a.dest = b.dest /\ a.rtt_us = b.rtt_us
Agrees(H, snt, dl) == AgreesWith(H, snt, dl, H.out.ok, H.out.hops)

(***************************************************************************)
(* C11 (isolation): with several runs sharing one wire, every reported run *)
(* equals what the design predicts for ONE wire run from that run's own    *)
(* probes and the packets its capture handle read (which include every     *)
(* other flow's replies) - i.e. the result it would produce alone.         *)
(***************************************************************************)
TracerouteWireRuns(H) == {w \in WireRuns(H) : ~IsE2E(H, w)}
HopsAgree(pr, ok, hops) ==
    IF pr.err # "" THEN ~ok
    ELSE /\ ok /\ Len(hops) = Len(pr.hops)
         /\ \A k \in DOMAIN pr.hops :
               LET a == hops[k]  b == pr.hops[k] IN
               a.ttl = b.ttl /\ a.addr = b.addr /\ a.dest = b.dest /\ a.rtt_us = b.rtt_us
C11_run(H) ==
    H.out.ok =>
      LET W == WireRuns(H)
          \* one prediction per wire run (what that run would report alone)
          P == [w \in W |-> Predict(HRun(H, w), SentOfRun(H, w), DelOfRun(H, w))]
          Tr == {w \in W : ~IsE2E(H, w)}
          E == W \ Tr
          Cand == [r \in DOMAIN H.out.runs |-> {w \in Tr : HopsAgree(P[w], TRUE, H.out.runs[r].hops)}]
          DestRTT(w) == LET D == {k \in DOMAIN P[w].hops : P[w].hops[k].dest}
                        IN IF P[w].err # "" \/ D = {} THEN 0 ELSE P[w].hops[CHOOSE k \in D : TRUE].rtt_us
          ERtts == {DestRTT(w) : w \in E}
      IN /\ \A r \in DOMAIN H.out.runs : Cand[r] # {}
         /\ \A r1, r2 \in DOMAIN H.out.runs : (r1 # r2 /\ Cardinality(Cand[r1]) = 1) => Cand[r1] # Cand[r2]
         \* every end-to-end sample is the destination RTT its own wire run would report alone (0 = unanswered)
         /\ \A i \in DOMAIN H.out.rtts_us : H.out.rtts_us[i] = 0 \/ H.out.rtts_us[i] \in ERtts
         \* identifiers handed to concurrent runs do not collide on the wire
         /\ \A w1, w2 \in W : w1 # w2 =>
               LET a == SentOfRun(H, w1)  b == SentOfRun(H, w2) IN
               /\ (a[1].p.kind = "echo_req" /\ b[1].p.kind = "echo_req") => a[1].p.eid # b[1].p.eid
               /\ (IsSynProbe(a[1].p) /\ IsSynProbe(b[1].p) /\ ~H.par.paris) =>
                     {a[j].p.ipid : j \in DOMAIN a} \cap {b[j].p.ipid : j \in DOMAIN b} = {}
               \* UDP runs that are on the wire at the same time towards the same endpoint differ in their source port
               /\ (a[1].p.kind = "udp" /\ b[1].p.kind = "udp" /\ a[1].p.dst = b[1].p.dst /\ a[1].p.dport = b[1].p.dport
                   /\ a[1].t <= b[Len(b)].t /\ b[1].t <= a[Len(a)].t) => a[1].p.sport # b[1].p.sport
\* C15: the end-to-end samples are exactly the destination RTTs of the end-to-end wire runs, as a multiset: none lost, none duplicated,
\* whatever the completion order (0 = unanswered)
C15_samples(H) ==
    (H.out.ok /\ Len(H.flt) = 0 /\ H.cancel < 0) =>
      LET E == {w \in WireRuns(H) : IsE2E(H, w)}
          P == [w \in E |-> Predict(HRun(H, w), SentOfRun(H, w), DelOfRun(H, w))]
          DestRTT(w) == LET D == {k \in DOMAIN P[w].hops : P[w].hops[k].dest}
                        IN IF P[w].err # "" \/ D = {} THEN 0 ELSE P[w].hops[CHOOSE k \in D : TRUE].rtt_us
          vals == {DestRTT(w) : w \in E} \cup {H.out.rtts_us[i] : i \in DOMAIN H.out.rtts_us}
      IN \A v \in vals : Cardinality({w \in E : DestRTT(w) = v}) = Cardinality({i \in DOMAIN H.out.rtts_us : H.out.rtts_us[i] = v})
=============================================================================
