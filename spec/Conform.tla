------------------------------ MODULE Conform ------------------------------
(***************************************************************************)
(* L2 binding of the design specs to the code: from the observable history *)
(* of a run (probes written, packets delivered, in log order) the design   *)
(* (Matcher.tla per packet + the engines' merge / window rules + Clip)     *)
(* PREDICTS the exact hop list and round-trip times.  TraceObs compares    *)
(* the prediction with what the real entry point returned; a difference    *)
(* with all property formulas true is "spec drift".                        *)
(***************************************************************************)
EXTENDS Matcher

NullR == [k |-> "none", ttl |-> 0, ip |-> "", dest |-> FALSE, j |-> 0, i |-> 0]

FlowOfTrace(H, snt) ==
    LET p == snt[1].p
        acc == SelectSeq(H.hlog, LAMBDA e : e.ev = "Accept")
    IN [src |-> p.src, dst |-> p.dst, sport |-> p.sport, dport |-> p.dport, eid |-> p.eid, v |-> p.v,
        isn |-> IF Len(acc) > 0 THEN acc[1].isn ELSE <<0, 0>>]

SentViewsBefore(snt, n) == [j \in 1..Cardinality({j \in DOMAIN snt : snt[j].n < n}) |-> snt[j].p]

\* parallel merge rule (traceroute_parallel.go writeProbe): first wins, destination overrides non-destination
MergePar(acc, r) ==
    LET prev == acc.res[r.ttl]
    IN IF prev.k = "none" \/ (~prev.dest /\ r.dest) THEN [acc EXCEPT !.res[r.ttl] = r] ELSE acc
\* serial rule (traceroute_serial.go, after fix 570aa34): same keep-first rule; a destination reply ends the run
MergeSer(acc, r) == [MergePar(acc, r) EXCEPT !.done = r.dest]

RECURSIVE FoldDel(_, _, _, _, _, _)
FoldDel(H, snt, dl, flow, i, acc) ==
    IF i > Len(dl) \/ acc.err # "" \/ acc.done THEN acc
    ELSE LET sv == SentViewsBefore(snt, dl[i].n)
             r0 == IF Len(sv) = 0 THEN Skip ELSE Match(H.par, flow, sv, PktOf(H, dl[i]))
             r == r0 @@ [i |-> i]
         IN IF r.k = "hop"
            THEN FoldDel(H, snt, dl, flow, i + 1, IF IsSerial(V(H)) THEN MergeSer(acc, r) ELSE MergePar(acc, r))
            ELSE IF r.k \in {"unsup", "fatal"} THEN [acc EXCEPT !.err = r.k]
            ELSE FoldDel(H, snt, dl, flow, i + 1, acc)

\* clipResults + ToHops
Clip(par, res) ==
    LET D == {t \in par.min..par.max : res[t].k = "hop" /\ res[t].dest}
        last == IF D = {} THEN par.max ELSE Min(D)
    IN [k \in 1..(last - par.min + 1) |-> res[par.min + k - 1]]

Predict(H, snt, dl) ==
    LET acc0 == [res |-> [t \in 1..255 |-> NullR], err |-> "", done |-> FALSE]
        acc == FoldDel(H, snt, dl, FlowOfTrace(H, snt), 1, acc0)
    IN [err |-> acc.err,
        hops |-> LET c == Clip(H.par, acc.res) IN
                 [k \in DOMAIN c |-> IF c[k].k = "hop"
                                     THEN [ttl |-> H.par.min + k - 1, addr |-> c[k].ip, dest |-> c[k].dest,
                                           rtt_us |-> dl[c[k].i].t - snt[c[k].j].t]
                                     ELSE [ttl |-> H.par.min + k - 1, addr |-> "", dest |-> FALSE, rtt_us |-> 0]]]

\* does the real output agree with the prediction?
Agrees(H, snt, dl) ==
    LET pr == Predict(H, snt, dl) IN
    IF pr.err # "" THEN ~H.out.ok
    ELSE /\ H.out.ok
         /\ Len(H.out.hops) = Len(pr.hops)
         /\ \A k \in DOMAIN pr.hops :
               LET a == H.out.hops[k]  b == pr.hops[k] IN
               a.ttl = b.ttl /\ a.addr = b.addr /\ a.dest = b.dest /\ a.rtt_us = b.rtt_us
=============================================================================
