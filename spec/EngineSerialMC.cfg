SPECIFICATION Spec
CONSTANTS
  MinTTL = 1
  MaxTTL = 3
  Timeout = 6
  Poll = 3
  Delay = 2
  Scripts <- SmallScripts
  CancelTimes <- NoCancel
INVARIANTS C03_Shape C03_LowestDest C06_Order C06_Paced C06_Stop C05_RTT C05_First C08_Bound C08_Cancel EmitOut C02_Listens
CHECK_DEADLOCK FALSE
