SPECIFICATION Spec
CONSTANTS ValidateTTL = TRUE
  FamilyCheck = FALSE
INVARIANT C19_Design
CHECK_DEADLOCK FALSE
