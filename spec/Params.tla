------------------------------- MODULE Params -------------------------------
(***************************************************************************)
(* The meaning of a request's parameters (C19).                            *)
(*   Expect(...)   what the PROPERTY says a parameter set means: rejected, *)
(*                 or executed as (ttl range, address, port, probe kind).  *)
(*   Code(...)     the decision path of the implementation, step by step:  *)
(*                 RunTraceroute (default port) -> runTracerouteOnce (TTL  *)
(*                 range check, protocol switch) -> parseTarget (embedded  *)
(*                 port, literal or DNS) -> performTCPFallback (method) -> *)
(*                 driver constructors (uint8 conversions) -> engine       *)
(*                 validate().                                             *)
(* ValidateTTL = FALSE models the code before fix 1b89fc7 (no range check, *)
(* uint8 wrap-around): TLC then reports Code # Expect.                     *)
(***************************************************************************)
EXTENDS Integers, Sequences, FiniteSets, TLC

CONSTANTS ValidateTTL,
          FamilyCheck     \* TRUE: a resolved address is used only if it belongs to the requested family (FALSE models the code before the fix:
                          \* with ipv6 requested the FIRST address was taken whatever its family)

T4 == "198.51.100.9"
T6 == "2001:db8:99::9"
TTLVals == {-255, -1, 0, 1, 2, 3, 254, 255, 256, 257, 258, 300, 511, 65537}
PortVals == {-1, 0, 1, 443, 65535, 65536, 70000}
\* target literal forms: [h, ok, addr, port (0 = none embedded)]
HostTable == { [h |-> "198.51.100.9", ok |-> TRUE, addr |-> T4, port |-> 0], [h |-> "198.51.100.9:8080", ok |-> TRUE, addr |-> T4, port |-> 8080],
               [h |-> "[198.51.100.9]", ok |-> TRUE, addr |-> T4, port |-> 0], [h |-> "198.51.100.9:0", ok |-> FALSE, addr |-> "", port |-> 0],
               [h |-> "198.51.100.9:65536", ok |-> FALSE, addr |-> "", port |-> 0], [h |-> "198.51.100.9:x", ok |-> FALSE, addr |-> "", port |-> 0],
               [h |-> "::ffff:198.51.100.9", ok |-> TRUE, addr |-> T4, port |-> 0], [h |-> "", ok |-> FALSE, addr |-> "", port |-> 0],
               [h |-> "300.1.1.1", ok |-> FALSE, addr |-> "", port |-> 0], [h |-> "1.2.3.", ok |-> FALSE, addr |-> "", port |-> 0],
               [h |-> "[2001:db8:99::9]:8080", ok |-> TRUE, addr |-> T6, port |-> 8080], [h |-> "2001:db8:99::9", ok |-> TRUE, addr |-> T6, port |-> 0],
               [h |-> "[2001:db8:99::9]", ok |-> TRUE, addr |-> T6, port |-> 0] }
\* well-formed literals no datagram can be sent to from an ordinary socket (broadcast without SO_BROADCAST, link-local without a zone):
\* the request may fail, but with an error; used by the scenario generator only
Unroutable == { [h |-> "255.255.255.255", ok |-> TRUE, addr |-> "255.255.255.255", port |-> 0], [h |-> "fe80::1", ok |-> TRUE, addr |-> "fe80::1", port |-> 0] }
IsV6(a) == a \in {T6, "fe80::1"}
HostOf(h) == CHOOSE r \in HostTable \cup Unroutable : r.h = h
KnownProto(p) == p \in {"udp", "tcp", "icmp"}
KnownMethod(m) == m \in {"", "syn", "sack", "prefer_sack"}     \* syn_socket exists but is not supported on this platform: rejected
\* the meaning of a parameter set
Expect(proto, method, mn, mx, port, host) ==
    LET hr == HostOf(host)
        eport == IF hr.port # 0 THEN hr.port ELSE IF port = 0 THEN 33434 ELSE port
        v6 == hr.ok /\ IsV6(hr.addr)
        valid == /\ KnownProto(proto) /\ (proto = "tcp" => KnownMethod(method))
                 /\ mn >= 1 /\ mn <= mx /\ mx <= 255
                 /\ hr.ok
                 /\ (proto # "icmp" => eport \in 1..65535)
                 /\ (proto = "icmp" => (hr.port # 0 \/ TRUE))
                 /\ ~(v6 /\ proto = "tcp")                    \* TCP traceroutes are IPv4 only: must be rejected, not mangled
        kind == CASE proto = "icmp" -> "echo_req" [] proto = "udp" -> "udp" [] method \in {"sack", "prefer_sack"} -> "sack" [] OTHER -> "syn"
    IN [reject |-> ~valid, min |-> mn, max |-> mx, addr |-> hr.addr, port |-> IF proto = "icmp" THEN 0 ELSE eport, kind |-> kind]


U8(x) == x % 256      \* Go's uint8(int) conversion (two's complement truncation; % is non-negative in TLA+)

Code(proto, method, mn, mx, port, host) ==
    LET hr == HostOf(host)
        dport == IF port = 0 THEN 33434 ELSE port                    \* RunTraceroute
        rej == [reject |-> TRUE, min |-> mn, max |-> mx, addr |-> hr.addr, port |-> 0, kind |-> "none"]
        tport == IF proto = "icmp" THEN 80 ELSE dport                \* parseTarget(host, 80) for icmp
        eport == IF hr.port # 0 THEN hr.port ELSE tport
        m2 == IF method = "" THEN "syn" ELSE method
        emn == IF ValidateTTL THEN mn ELSE U8(mn)
        emx == IF ValidateTTL THEN mx ELSE U8(mx)
    IN IF ValidateTTL /\ (mn < 1 \/ mx > 255 \/ mn > mx) THEN rej                     \* runTracerouteOnce range check
       ELSE IF ~(proto \in {"udp", "tcp", "icmp"}) THEN rej                            \* unknown Protocol
       ELSE IF ~hr.ok THEN rej                                                         \* parseTarget: literal / resolution
       ELSE IF ~(eport \in 1..65535) THEN rej                                          \* parseTarget: port range
       ELSE IF proto = "tcp" /\ ~(m2 \in {"syn", "sack", "prefer_sack"}) THEN rej       \* performTCPFallback (syn_socket: unix stub errors)
       ELSE IF proto = "tcp" /\ IsV6(hr.addr) THEN rej                                  \* IPv4-only TCP drivers
       ELSE IF emn < 1 \/ emn > emx THEN rej                                           \* TracerouteParams.validate
       ELSE [reject |-> FALSE, min |-> emn, max |-> emx, addr |-> hr.addr, port |-> IF proto = "icmp" THEN 0 ELSE eport,
             kind |-> CASE proto = "icmp" -> "echo_req" [] proto = "udp" -> "udp" [] m2 \in {"sack", "prefer_sack"} -> "sack" [] OTHER -> "syn"]

\* ---- host names (resolved through the resolver: /etc/hosts of the harness namespace) -------------------------------
\* a4 / a6: the name's address of each family ("" = none); first: the address the resolver lists first
NameTable == { [h |-> "four.test", a4 |-> T4, a6 |-> "", first |-> T4], [h |-> "six.test", a4 |-> "", a6 |-> T6, first |-> T6],
               [h |-> "dual46.test", a4 |-> T4, a6 |-> T6, first |-> T4], [h |-> "dual64.test", a4 |-> T4, a6 |-> T6, first |-> T6],
               [h |-> "nosuch.test", a4 |-> "", a6 |-> "", first |-> ""] }
IsName(h) == \E r \in NameTable : r.h = h
NameOf(h) == CHOOSE r \in NameTable : r.h = h
Rejected(mn, mx) == [reject |-> TRUE, min |-> mn, max |-> mx, addr |-> "", port |-> 0, kind |-> "none"]
\* the meaning: the request is executed against the name's address of the REQUESTED family, or rejected when there is none
ExpectW(proto, method, mn, mx, port, host, w6) ==
    IF ~IsName(host) THEN Expect(proto, method, mn, mx, port, host)
    ELSE LET a == IF w6 THEN NameOf(host).a6 ELSE NameOf(host).a4 IN
         IF a = "" THEN [Expect(proto, method, mn, mx, port, T4) EXCEPT !.reject = TRUE, !.addr = ""] ELSE Expect(proto, method, mn, mx, port, a)
\* the code (parseTarget): literal -> as is; name -> LookupIP, then the first address that passes the family test
CodeW(proto, method, mn, mx, port, host, w6) ==
    IF ~IsName(host) THEN Code(proto, method, mn, mx, port, host)
    ELSE LET n == NameOf(host)
             a == IF w6 THEN (IF FamilyCheck THEN n.a6 ELSE n.first) ELSE n.a4 IN
         IF a = "" THEN [Code(proto, method, mn, mx, port, T4) EXCEPT !.reject = TRUE, !.addr = "", !.port = 0, !.kind = "none"] ELSE Code(proto, method, mn, mx, port, a)

ProtoVals == {"udp", "tcp", "icmp", "UDP", "TCP", "", "sctp"}
MethodVals == {"", "syn", "sack", "prefer_sack", "syn_socket", "SYN", "x"}

VARIABLES prm, dec
Init == /\ prm \in [proto : ProtoVals, method : MethodVals, mn : TTLVals, mx : TTLVals, port : PortVals, host : {r.h : r \in HostTable}, w6 : {FALSE}]
                   \cup [proto : ProtoVals, method : MethodVals, mn : {1}, mx : {3, 300}, port : {0, 443}, host : {r.h : r \in NameTable}, w6 : BOOLEAN]
        /\ dec = [reject |-> TRUE, min |-> 0, max |-> 0, addr |-> "", port |-> 0, kind |-> "unset"]
Decide == dec.kind = "unset" /\ dec' = CodeW(prm.proto, prm.method, prm.mn, prm.mx, prm.port, prm.host, prm.w6) /\ UNCHANGED prm
Spec == Init /\ [][Decide]_<<prm, dec>>

\* C19 at design level: the code accepts exactly what the property calls representable, and executes it as stated
C19_Design ==
    dec.kind # "unset" =>
        LET ex == ExpectW(prm.proto, prm.method, prm.mn, prm.mx, prm.port, prm.host, prm.w6) IN
        /\ dec.reject = ex.reject
        /\ ~dec.reject => (dec.min = ex.min /\ dec.max = ex.max /\ dec.addr = ex.addr /\ dec.port = ex.port /\ dec.kind = ex.kind)
        /\ ~dec.reject => (dec.min \in 1..255 /\ dec.max \in 1..255 /\ dec.min <= dec.max)
=============================================================================
