-------------------------------- MODULE Locks --------------------------------
(***************************************************************************)
(* C14 at design level: the synchronisation skeleton of a request as a set *)
(* of straight-line goroutine programs over shared variables, mutexes,     *)
(* channel closes and spawn/join edges, executed under ALL interleavings   *)
(* with vector clocks; a data race = two conflicting accesses not ordered  *)
(* by happens-before.                                                      *)
(*   engine (traceroute_parallel.go): sender / receiver goroutines, the    *)
(*      hasSent channel, results under resultsMu, read back after g.Wait   *)
(*   drivers: icmp/udp sentProbes under mu; sack sendTimes (GuardSack)     *)
(*   request (traceroute.go): run goroutines appending under one mutex,    *)
(*      public-IP goroutine, wg.Wait                                       *)
(*   reverse DNS fan-out (reversedns.go): map under mu, wg.Wait            *)
(* GuardSack = FALSE is the code before the sendTimes mutex was added:     *)
(* TLC reports the race (reply for TTL t read before probe t is recorded). *)
(***************************************************************************)
EXTENDS Integers, Sequences, FiniteSets, TLC

CONSTANTS GuardSack, Driver      \* Driver \in {"icmp", "sack"}

Procs == {"main", "sender", "receiver", "run1", "run2", "pub", "dns1", "dns2"}
\* per-TTL table access of the driver in use
Tbl(t) == "tbl" \o ToString(t)
GW(t) == IF Driver = "icmp" \/ GuardSack THEN <<<<"acq", "dmu">>, <<"w", Tbl(t)>>, <<"rel", "dmu">>>> ELSE <<<<"w", Tbl(t)>>>>
GR(t) == IF Driver = "icmp" \/ GuardSack THEN <<<<"acq", "dmu">>, <<"r", Tbl(t)>>, <<"rel", "dmu">>>> ELSE <<<<"r", Tbl(t)>>>>
Prog ==
    [ main |-> << <<"w", "state">>,                                   \* handshake / driver construction before the engine starts
                  <<"spawn", "sender">>, <<"spawn", "receiver">>, <<"join", "sender">>, <<"join", "receiver">>,
                  <<"r", "results">>,                                  \* clipResults after g.Wait
                  <<"spawn", "run1">>, <<"spawn", "run2">>, <<"spawn", "pub">>, <<"join", "run1">>, <<"join", "run2">>, <<"join", "pub">>,
                  <<"r", "acc">>, <<"r", "pubip">>,                    \* after wg.Wait
                  <<"spawn", "dns1">>, <<"spawn", "dns2">>, <<"join", "dns1">>, <<"join", "dns2">>, <<"r", "dnsmap">> >>,
      \* sender: SendProbe(1) ; close(hasSent) ; SendProbe(2)
      sender |-> <<<<"r", "state">>>> \o GW(1) \o <<<<"close", "hasSent">>>> \o GW(2),
      \* receiver: <-hasSent ; replies may be for ANY ttl (stale / spoofed early replies): reads tbl[2] possibly before it is written
      receiver |-> <<<<"wait", "hasSent">>, <<"r", "state">>>> \o GR(2) \o <<<<"acq", "rmu">>, <<"w", "results">>, <<"rel", "rmu">>>> \o GR(1)
                   \o <<<<"acq", "rmu">>, <<"w", "results">>, <<"rel", "rmu">>>>,
      run1 |-> << <<"acq", "amu">>, <<"w", "acc">>, <<"rel", "amu">> >>,
      run2 |-> << <<"acq", "amu">>, <<"w", "acc">>, <<"rel", "amu">> >>,
      pub  |-> << <<"acq", "amu">>, <<"w", "pubip">>, <<"rel", "amu">> >>,
      dns1 |-> << <<"acq", "nmu">>, <<"w", "dnsmap">>, <<"rel", "nmu">> >>,
      dns2 |-> << <<"acq", "nmu">>, <<"w", "dnsmap">>, <<"rel", "nmu">> >> ]

Vars == {"state", "results", "acc", "pubip", "dnsmap", Tbl(1), Tbl(2)}
Mutexes == {"dmu", "rmu", "amu", "nmu"}
Chans == {"hasSent"}
ZeroVC == [p \in Procs |-> 0]
Join(a, b) == [p \in Procs |-> IF a[p] > b[p] THEN a[p] ELSE b[p]]

VARIABLES pc, started, vc, holder, lockvc, chanvc, closed, endvc, lastW, reads, race
vars == <<pc, started, vc, holder, lockvc, chanvc, closed, endvc, lastW, reads, race>>
Init == /\ pc = [p \in Procs |-> 1] /\ started = {"main"} /\ vc = [p \in Procs |-> ZeroVC]
        /\ holder = [m \in Mutexes |-> ""] /\ lockvc = [m \in Mutexes |-> ZeroVC]
        /\ chanvc = [c \in Chans |-> ZeroVC] /\ closed = {} /\ endvc = [p \in Procs |-> ZeroVC]
        /\ lastW = [x \in Vars |-> [p |-> "", c |-> 0]] /\ reads = [x \in Vars |-> {}] /\ race = ""

Done(p) == pc[p] > Len(Prog[p])
Tick(p, v) == [v EXCEPT ![p] = @ + 1]
HB(a, v) == a.p = "" \/ a.c <= v[a.p]           \* access a happened before a process whose clock is v

Step(p) ==
    /\ p \in started /\ ~Done(p) /\ race = ""
    /\ LET op == Prog[p][pc[p]]  v == Tick(p, vc[p]) IN
       /\ pc' = [pc EXCEPT ![p] = @ + 1]
       /\ CASE op[1] = "acq" -> /\ holder[op[2]] = "" /\ holder' = [holder EXCEPT ![op[2]] = p]
                                /\ vc' = [vc EXCEPT ![p] = Join(v, lockvc[op[2]])]
                                /\ UNCHANGED <<started, lockvc, chanvc, closed, endvc, lastW, reads, race>>
            [] op[1] = "rel" -> /\ holder' = [holder EXCEPT ![op[2]] = ""] /\ lockvc' = [lockvc EXCEPT ![op[2]] = v]
                                /\ vc' = [vc EXCEPT ![p] = v]
                                /\ UNCHANGED <<started, chanvc, closed, endvc, lastW, reads, race>>
            [] op[1] = "close" -> /\ closed' = closed \cup {op[2]} /\ chanvc' = [chanvc EXCEPT ![op[2]] = v] /\ vc' = [vc EXCEPT ![p] = v]
                                  /\ UNCHANGED <<started, holder, lockvc, endvc, lastW, reads, race>>
            [] op[1] = "wait" -> /\ op[2] \in closed /\ vc' = [vc EXCEPT ![p] = Join(v, chanvc[op[2]])]
                                 /\ UNCHANGED <<started, holder, lockvc, chanvc, closed, endvc, lastW, reads, race>>
            [] op[1] = "spawn" -> /\ started' = started \cup {op[2]} /\ vc' = [vc EXCEPT ![p] = v, ![op[2]] = Join(vc[op[2]], v)]
                                  /\ UNCHANGED <<holder, lockvc, chanvc, closed, endvc, lastW, reads, race>>
            [] op[1] = "join" -> /\ Done(op[2]) /\ endvc[op[2]] # ZeroVC /\ vc' = [vc EXCEPT ![p] = Join(v, endvc[op[2]])]
                                 /\ UNCHANGED <<started, holder, lockvc, chanvc, closed, endvc, lastW, reads, race>>
            [] op[1] = "w" -> /\ vc' = [vc EXCEPT ![p] = v]
                              /\ race' = IF ~HB(lastW[op[2]], v) \/ \E r \in reads[op[2]] : ~HB(r, v) THEN op[2] ELSE ""
                              /\ lastW' = [lastW EXCEPT ![op[2]] = [p |-> p, c |-> v[p]]] /\ reads' = [reads EXCEPT ![op[2]] = {}]
                              /\ UNCHANGED <<started, holder, lockvc, chanvc, closed, endvc>>
            [] op[1] = "r" -> /\ vc' = [vc EXCEPT ![p] = v]
                              /\ race' = IF ~HB(lastW[op[2]], v) THEN op[2] ELSE ""
                              /\ reads' = [reads EXCEPT ![op[2]] = @ \cup {[p |-> p, c |-> v[p]]}]
                              /\ UNCHANGED <<started, holder, lockvc, chanvc, closed, endvc, lastW>>
Finish(p) == /\ p \in started /\ Done(p) /\ endvc[p] = ZeroVC /\ p # "main" /\ race = ""
             /\ endvc' = [endvc EXCEPT ![p] = vc[p]]
             /\ UNCHANGED <<pc, started, vc, holder, lockvc, chanvc, closed, lastW, reads, race>>
Next == \E p \in Procs : Step(p) \/ Finish(p)
Spec == Init /\ [][Next]_vars

\* C14: no two goroutines access the same state without synchronisation, under any schedule
C14_NoRace == race = ""
\* mutual exclusion sanity and progress to the end of main
AllDone == <>(Done("main"))
=============================================================================
