INIT Init
NEXT Next
