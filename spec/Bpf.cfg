SPECIFICATION Spec
INVARIANTS C12_Exact ProgramsExtracted EmitSample
CHECK_DEADLOCK FALSE
