------------------------------- MODULE GenWire -------------------------------
(***************************************************************************)
(* Scenario generator: the ENVIRONMENT half of the specification.  TLC     *)
(* enumerates network behaviours (reply forms and encodings, perturbations *)
(* of genuine replies, injection instants, faults, cancellation instants,  *)
(* identifier bases at their wrap-around points, parameter sets) as        *)
(* scenario records and writes them as ndjson; the harness executes each   *)
(* one against the real entry points over the simulated wire.              *)
(* Scenarios are symbolic in the flow identity: packets are described      *)
(* relative to the probe the code actually emits (mods / mods_d).          *)
(*                                                                         *)
(* Selected by environment: VT_GEN (family), VT_TIER, VT_OUT, VT_N.        *)
(***************************************************************************)
EXTENDS Integers, Sequences, FiniteSets, TLC, Json, IOUtils, Randomization, SequencesExt

Gen  == IOEnv.VT_GEN
Tier == IOEnv.VT_TIER
Quick == Tier = "quick"
NMax == atoi(IOEnv.VT_N)        \* sample size for the sampled families

Variants == {"icmp4", "icmp6", "udp4", "udp6", "tcp", "tcp_paris", "sack"}
IsV6(v) == v \in {"icmp6", "udp6"}
HasStrict(v) == v \in {"udp4", "udp6", "tcp", "tcp_paris", "sack"}
StrictOpts(v) == IF HasStrict(v) THEN {TRUE, FALSE} ELSE {TRUE}
IsSerialV(v) == v \in {"tcp", "tcp_paris"}

Router(v, t) == IF IsV6(v) THEN "fd00::" \o ToString(t) ELSE "10." \o ToString(t) \o ".0.1"
Foreign(v, k) == IF IsV6(v) THEN "2001:db8:f::" \o ToString(k) ELSE "192.0.2." \o ToString(k)
OtherLocal(v) == IF IsV6(v) THEN "2001:db8:77::2" ELSE "10.77.0.2"
OtherTarget(v) == IF IsV6(v) THEN "2001:db8:99::a" ELSE "198.51.100.10"

\* proof-of-arrival reply forms per variant
DestForms(v) == CASE v \in {"icmp4", "icmp6"} -> {"echo"}
                  [] v \in {"udp4", "udp6"}   -> {"du_port", "du_host", "du_admin"}
                  [] v \in {"tcp", "tcp_paris"} -> {"synack", "rst", "rstack"}
                  [] v = "sack" -> {"sack"}
DestForm1(v) == CASE v \in {"icmp4", "icmp6"} -> "echo"
                  [] v \in {"udp4", "udp6"}   -> "du_port"
                  [] v \in {"tcp", "tcp_paris"} -> "synack"
                  [] v = "sack" -> "sack"

TE(v, t, us) == [form |-> "te", from |-> Router(v, t), delay_us |-> us]
Dest(v, us) == [form |-> DestForm1(v), delay_us |-> us]

\* string-keyed path function from an integer-keyed one
PathOf(f) == [s \in {ToString(i) : i \in DOMAIN f} |-> f[CHOOSE i \in DOMAIN f : ToString(i) = s]]

\* identifier bases at and around wrap-around; 32-bit values as <<hi, lo>>
Bases == { [name |-> "mid",  ipid_base |-> 41821, echo_base |-> 40000, seq_base |-> <<4660, 22136>>, isn |-> <<4660, 22136>>],
           [name |-> "wrap", ipid_base |-> 65533, echo_base |-> 65533, seq_base |-> <<65535, 65534>>, isn |-> <<65535, 65533>>],
           [name |-> "zero", ipid_base |-> 65535, echo_base |-> 65535, seq_base |-> <<0, 0>>, isn |-> <<0, 0>>],
           \* isn + 4 = 2^32 - 1 and isn + 5 = 0: SACK blocks of one duplicate ACK on opposite sides of the sequence wrap
           \* the largest sequence number: the acknowledgement of the probe is 0
           [name |-> "seqmax", ipid_base |-> 1000, echo_base |-> 1000, seq_base |-> <<65535, 65535>>, isn |-> <<65535, 65535>>],
           [name |-> "wrap5", ipid_base |-> 65531, echo_base |-> 65531, seq_base |-> <<65535, 65531>>, isn |-> <<65535, 65531>>] }
BaseMid == CHOOSE b \in Bases : b.name = "mid"

\* the common part of a wire scenario
Common(v, strict, b, mn, mx) ==
    [variant |-> v, strict |-> strict, min |-> mn, max |-> mx, timeout_ms |-> 400, delay_ms |-> 20,
     ipid_base |-> b.ipid_base, echo_base |-> b.echo_base, seq_base32 |-> b.seq_base, isn32 |-> b.isn,
     sack_perm |-> TRUE, sack_ts |-> FALSE]

\* background path over TTLs mn..mx: routers answer except at 'silent'; the destination sits at ttl 'dt' (0: none)
Background(v, mn, mx, dt, silent) ==
    PathOf([t \in mn..mx |->
        IF dt # 0 /\ t >= dt THEN <<Dest(v, 9000 + 100 * (t - mn))>>
        ELSE IF t \in silent THEN <<>>
        ELSE <<TE(v, t, 3000 + 1100 * (t - mn))>>])

---------------------------------------------------------------------------
(***************************************************************************)
(* C01: single-field perturbations of genuine replies.                     *)
(* A perturbation is [label, form, mods_d, mods_s] applied to the reply    *)
(* for a TTL that the background path leaves SILENT, sent from a responder *)
(* address nobody else uses - so any hop created by it names its culprit.  *)
(***************************************************************************)
NoMods == [x \in {} |-> 0]
Pert(label, form, md, ms) == [label |-> label, form |-> form, mods_d |-> md, mods_s |-> ms]

QuotePerts(v) ==
    LET addr == { Pert("q_dst", "te", NoMods, [q_dst |-> OtherTarget(v)]) } \cup
                { Pert("q_src", "te", NoMods, [q_src |-> OtherLocal(v)]) }
        ports == IF v \in {"icmp4", "icmp6"} THEN {}
                 ELSE { Pert("q_dport+1", "te", [q_dport |-> 1], NoMods),
                        Pert("q_dport+256", "te", [q_dport |-> 256], NoMods),
                        Pert("q_sport+1", "te", [q_sport |-> 1], NoMods),
                        Pert("q_sport-256", "te", [q_sport |-> -256], NoMods) }
        ids == CASE v \in {"icmp4", "icmp6"} ->
                      { Pert("q_eid+1", "te", [q_eid |-> 1], NoMods), Pert("q_eid+256", "te", [q_eid |-> 256], NoMods),
                        Pert("q_eid-1", "te", [q_eid |-> -1], NoMods),
                        Pert("q_eseq+256", "te", [q_eseq |-> 256], NoMods), Pert("q_eseq+512", "te", [q_eseq |-> 512], NoMods),
                        Pert("q_eseq+32768", "te", [q_eseq |-> 32768], NoMods) }
                 [] v = "udp4" ->
                      { Pert("q_ipid+256", "te", [q_ipid |-> 256], NoMods), Pert("q_ipid+32768", "te", [q_ipid |-> 32768], NoMods),
                        Pert("q_ipid+100", "te", [q_ipid |-> 100], NoMods) }
                 [] v = "udp6" ->
                      { Pert("q_ulen+256", "te", [q_ulen |-> 256], NoMods), Pert("q_ulen+100", "te", [q_ulen |-> 100], NoMods) }
                 [] v \in {"tcp", "tcp_paris"} ->
                      { Pert("q_ipid+256", "te", [q_ipid |-> 256], NoMods), Pert("q_ipid+100", "te", [q_ipid |-> 100], NoMods),
                        Pert("q_seq+1", "te", [q_seq |-> 1], NoMods), Pert("q_seq+256", "te", [q_seq |-> 256], NoMods),
                        Pert("q_seq+65536", "te", [q_seq |-> 65536], NoMods) }
                 [] v = "sack" ->
                      { Pert("q_seq+256", "te", [q_seq |-> 256], NoMods), Pert("q_seq+65536", "te", [q_seq |-> 65536], NoMods),
                        Pert("q_seq+16777216", "te", [q_seq |-> 16777216], NoMods), Pert("q_seq-300", "te", [q_seq |-> -300], NoMods) }
    IN addr \cup ports \cup ids

\* the same perturbed quotes in an error that comes FROM THE TARGET's own address (a target behind a port forwarder, a
\* target that routes): where the packet comes from never makes up for a quote that names another flow
QuotePertsT(v) == { [pt EXCEPT !.label = @ \o "@target", !.mods_s = @ @@ [from |-> "TARGET"]] : pt \in QuotePerts(v) }

\* perturbed direct replies; these necessarily come from the target address unless the responder is the perturbation
DirectPerts(v) ==
    CASE v \in {"icmp4", "icmp6"} ->
            { Pert("eid+1", "echo", [eid |-> 1], NoMods), Pert("eid+256", "echo", [eid |-> 256], NoMods),
              Pert("eseq+256", "echo", [eseq |-> 256], NoMods), Pert("eseq+32768", "echo", [eseq |-> 32768], NoMods),
              Pert("echo_from_foreign", "echo", NoMods, [from |-> Foreign(v, 77)]) }
      [] v \in {"tcp", "tcp_paris"} ->
            { Pert("synack_sport+1", "synack", [sport |-> 1], NoMods), Pert("synack_dport+1", "synack", [dport |-> 1], NoMods),
              Pert("synack_ack+1", "synack", [ack |-> 1], NoMods), Pert("synack_ack+65536", "synack", [ack |-> 65536], NoMods),
              Pert("rstack_ack+256", "rstack", [ack |-> 256], NoMods),
              Pert("synack_from_foreign", "synack", NoMods, [from |-> Foreign(v, 77)]),
              Pert("rst_from_foreign", "rst", NoMods, [from |-> Foreign(v, 77)]),
              Pert("rst_dport+1", "rst", [dport |-> 1], NoMods),
              Pert("synack_to_other", "synack", NoMods, [o_dst |-> OtherLocal(v)]) }
      [] v = "sack" ->
            { Pert("sack_left+256", "sack", [sack_left |-> 256], NoMods), Pert("sack_left+65536", "sack", [sack_left |-> 65536], NoMods),
              Pert("sack_left-300", "sack", [sack_left |-> -300], NoMods),
              Pert("sack_sport+1", "sack", [sport |-> 1], NoMods), Pert("sack_dport+1", "sack", [dport |-> 1], NoMods),
              Pert("sack_from_foreign", "sack", NoMods, [from |-> Foreign(v, 77)]) }
      \* UDP: an unreachable from a box that is not the target (a rejecting firewall, a router without a route) is a genuine reply
      \* of THAT box: the hop it creates must carry its address
      [] v \in {"udp4", "udp6"} ->
            { Pert("du_port_from_middlebox", "du_port", NoMods, [from |-> Foreign(v, 77)]),
              Pert("du_host_from_router", "du_host", NoMods, [from |-> Foreign(v, 77)]),
              Pert("du_admin_from_firewall", "du_admin", NoMods, [from |-> Foreign(v, 77)]) }
      [] OTHER -> {}

\* a C01 scenario: routers at 1,2 answer, TTL 3 silent, destination at 4 (or never); the packet under test is about TTL 3
C01Scen(v, strict, b, pt, instant, rng) ==
    LET mn == rng[1]  mx == rng[2]  vt == mn + 2
        from == IF "from" \in DOMAIN pt.mods_s THEN pt.mods_s.from ELSE IF pt.form = "te" THEN Foreign(v, 200) ELSE "TARGET"
        inj == [at_us |-> IF instant = "early" THEN 1000 ELSE 150000, for_ttl |-> IF instant = "unsent" THEN mx ELSE vt,
                form |-> pt.form, from |-> from, mods_d |-> pt.mods_d,
                mods_s |-> [k \in (DOMAIN pt.mods_s) \ {"from"} |-> pt.mods_s[k]], tag |-> pt.label]
    IN Common(v, strict, b, mn, mx) @@
       [id |-> "C01/" \o v \o "/" \o (IF strict THEN "strict" ELSE "relaxed") \o "/" \o b.name \o "/" \o ToString(mn) \o "/" \o pt.label \o "/" \o instant,
        label |-> v \o "/" \o pt.label \o "/" \o instant,
        path |-> Background(v, mn, mx, 0, {vt}), inject |-> <<inj>>]

Genuine(v) == {Pert("genuine_te", "te", NoMods, NoMods)} \cup {Pert("genuine_" \o f, f, NoMods, NoMods) : f \in DestForms(v)}

TTLRanges == {<<1, 4>>, <<2, 5>>, <<252, 255>>}

\* TLC cannot quantify a dependent product in one comprehension: build it as a union
C01All(u) ==
    UNION { UNION { UNION {
        { C01Scen(v, s, b, pt, "after", <<1, 4>>) : pt \in QuotePerts(v) \cup DirectPerts(v) } \cup
        \* (b) a genuine reply for a TTL that has not been probed yet / delivered before its probe
        { C01Scen(v, s, b, pt, "unsent", <<1, 4>>) : pt \in Genuine(v) } \cup
        { C01Scen(v, s, b, pt, "early", <<1, 4>>) : pt \in {x \in Genuine(v) : x.form = "te"} }
      : b \in Bases } : s \in StrictOpts(v) } : v \in Variants }
    \cup
    \* (c) other TTL ranges (mid base only)
    UNION { UNION {
        { C01Scen(v, s, BaseMid, pt, "after", r) : pt \in QuotePerts(v) \cup DirectPerts(v), r \in TTLRanges \ {<<1, 4>>} }
      : s \in StrictOpts(v) } : v \in Variants }
    \cup
    UNION { UNION { { C01Scen(v, s, BaseMid, pt, "after", <<1, 4>>) : pt \in QuotePertsT(v) } : s \in StrictOpts(v) } : v \in Variants }
    \cup
    \* (d) the tool's own outgoing probes looped back to the capture handles
    { Common(v, TRUE, b, 1, 4) @@ [id |-> "C01/" \o v \o "/loop/" \o b.name, label |-> v \o "/own_probes", loop |-> TRUE,
                                   path |-> Background(v, 1, 4, 4, {2})] : v \in Variants, b \in Bases }

---------------------------------------------------------------------------
(***************************************************************************)
(* C02: the device-behaviour catalogue.  Every router on a 4-hop path      *)
(* answers in ONE encoding combination; the destination answers in one of  *)
(* its proof-of-arrival forms; timing early or just inside the window.     *)
(***************************************************************************)
Encs == { [quote |-> q, ipopt |-> o, qttl |-> t, qcsum |-> c, qtos |-> s] :
            q \in {"28", "full", "ext"}, o \in {0, 4, 40}, t \in {0, 7, -1}, c \in {"", "zero", "keep"}, s \in {0, 40} }
EncPlain == [quote |-> "28", ipopt |-> 0, qttl |-> 0, qcsum |-> "", qtos |-> 0]

NatMods == [q_src |-> "172.16.5.5"]
\* listening window: a reply to probe t (sent at (t-mn)*delay for the parallel engine) arriving one poll + 1 ms before the end
LateDelay(v, mn, mx, t) ==
    IF IsSerialV(v) THEN 400000 - 100000 - 1000
    ELSE 400000 + 20000 * (mx - mn + 1) - 100000 - 1000 - 20000 * (t - mn)

C02Scen(v, strict, b, enc, dform, timing, nat, other, sackx) ==
    LET mn == 1  mx == 5  dt == 4
        rdelay(t) == IF timing = "late" THEN LateDelay(v, mn, mx, t) ELSE IF timing = "eager" THEN 0 ELSE 2000 + 900 * t
        te(t) == [form |-> "te", from |-> Router(v, t), delay_us |-> rdelay(t), tag |-> "g"] @@ enc
                 \* source NAT on the way: address and port rewritten, the port only (masquerading on the host itself), the address only
                 @@ (CASE nat = "all" -> [mods_s |-> NatMods, mods |-> [q_sport |-> 1024]]
                       [] nat = "port" -> [mods_s |-> NoMods, mods |-> [q_sport |-> 1024]]
                       [] nat = "addr" -> [mods_s |-> NatMods]
                       [] OTHER -> [mods_s |-> NoMods])
        dst(t) == [form |-> dform, delay_us |-> rdelay(t), tag |-> "g"] @@ (IF dform = "sack" THEN [extra |-> sackx[1], desc |-> sackx[2]] ELSE [quote |-> "28"])
                 \* (direct replies - echo reply, SYN-ACK, RST, duplicate ACK - carry the outer IP options of the combination too)
                 @@ (IF dform \in {"du_port", "du_host", "du_admin"} THEN enc ELSE [qttl |-> 0, ipopt |-> enc.ipopt])
        \* behaviour of the OTHER replies: all present / one lost / one duplicated / reordered (lower TTLs slower)
        hop(t) == CASE other = "loss" /\ t = 2 -> <<>>
                    [] other = "slowhop" /\ t = 3 -> <<[te(t) EXCEPT !.delay_us = 230000]>>
                    [] other = "dup" /\ t = 2 -> <<te(t) @@ [dup |-> 1, dup_us |-> 150000]>>
                    [] other = "reorder" /\ timing = "early" -> <<[te(t) EXCEPT !.delay_us = 90000 - 20000 * t]>>
                    [] OTHER -> <<te(t)>>
    IN Common(v, strict, b, mn, mx) @@
       [id |-> "C02/" \o v \o "/" \o (IF strict THEN "strict" ELSE "relaxed") \o "/" \o b.name \o "/" \o enc.quote \o "-" \o ToString(enc.ipopt)
               \o "-" \o ToString(enc.qttl) \o "-" \o enc.qcsum \o "-" \o ToString(enc.qtos) \o "/" \o dform \o "/" \o timing
               \o (IF nat # "none" THEN "/nat-" \o nat ELSE "") \o "/" \o other \o "/" \o ToString(Len(sackx[1])) \o (IF sackx[2] THEN "d" ELSE "a"),
        label |-> v \o "/" \o (IF strict THEN "strict" ELSE "relaxed") \o "/" \o enc.quote \o "/opt" \o ToString(enc.ipopt) \o "/" \o dform \o "/" \o timing
                  \o (IF nat = "all" THEN "/nat" ELSE IF nat # "none" THEN "/nat-" \o nat ELSE "") \o "/" \o other,
        eager |-> (timing = "eager"), drain |-> TRUE,
        path |-> PathOf([t \in mn..mx |-> IF t >= dt THEN <<IF other = "destswap" /\ timing = "early" THEN [dst(t) EXCEPT !.delay_us = 90000 - 15000 * t] ELSE dst(t)>> ELSE hop(t)])]

SackExtras == <<<<<<>>, FALSE>>, <<<<5>>, FALSE>>, <<<<5>>, TRUE>>>>
DestFormSeq(v) == SetToSeq(DestForms(v))
\* the parameter space of the catalogue; dependent choices are made by index so that the space is a plain product
C02Params == [v : Variants, s : BOOLEAN, b : Bases, enc : Encs, dfi : 1..3, tm : {"early", "late", "eager"},
              ot : {"all", "loss", "dup", "reorder", "slowhop", "destswap"}, sxi : 1..3, nat : {"none", "all", "port", "addr"}]
C02Of(p) ==
    LET v == p.v
        s == IF HasStrict(v) THEN p.s ELSE TRUE
        dfs == DestFormSeq(v)
        df == dfs[((p.dfi - 1) % Len(dfs)) + 1]
        nat == IF ~s /\ HasStrict(v) THEN p.nat ELSE "none"
        sx == IF v = "sack" THEN SackExtras[p.sxi] ELSE SackExtras[1]
    IN C02Scen(v, s, p.b, p.enc, df, IF nat # "none" THEN "early" ELSE p.tm, nat, IF nat # "none" THEN "all" ELSE p.ot, sx)
\* a fixed core (plain encoding, every variant/form/timing/strictness) plus a seeded sample of the full catalogue product
C02Core == { [v |-> v, s |-> s, b |-> BaseMid, enc |-> EncPlain, dfi |-> i, tm |-> tm, ot |-> "all", sxi |-> x, nat |-> n] :
               v \in Variants, s \in BOOLEAN, i \in 1..3, tm \in {"early", "late", "eager"}, x \in 1..3, n \in {"none", "all", "port", "addr"} }
           \cup { [v |-> "sack", s |-> s, b |-> b, enc |-> EncPlain, dfi |-> 1, tm |-> tm, ot |-> "all", sxi |-> x, nat |-> "none"] :
                    s \in BOOLEAN, b \in Bases, tm \in {"early", "eager"}, x \in 1..3 }
           \cup { [v |-> v, s |-> TRUE, b |-> BaseMid, enc |-> EncPlain, dfi |-> i, tm |-> "early", ot |-> ot, sxi |-> 1, nat |-> "none"] :
                    v \in Variants, i \in 1..3, ot \in {"slowhop", "destswap"} }
\* serial engine, listening time that is not a multiple of the poll interval: a timeout SHORTER than one poll (80 ms), and an answer
\* to the last probe in the last, partial poll of a 350 ms timeout
C02SerialShort(v) ==
    [Common(v, TRUE, BaseMid, 1, 3) EXCEPT !.timeout_ms = 80] @@
    [id |-> "C02/" \o v \o "/timeout_shorter_than_poll", label |-> v \o "/timeout_shorter_than_poll", drain |-> TRUE,
     path |-> PathOf([t \in 1..3 |-> IF t = 3 THEN <<[form |-> DestForm1(v), delay_us |-> 9000]>> ELSE <<[form |-> "te", from |-> Router(v, t), delay_us |-> 2000 + 900 * t]>>])]
C02SerialTail(v) ==
    [Common(v, TRUE, BaseMid, 1, 3) EXCEPT !.timeout_ms = 350] @@
    [id |-> "C02/" \o v \o "/answer_in_last_partial_poll", label |-> v \o "/answer_in_last_partial_poll", drain |-> TRUE,
     path |-> PathOf([t \in 1..3 |-> <<[form |-> "te", from |-> Router(v, t), delay_us |-> IF t = 3 THEN 320000 ELSE 2000 + 900 * t]>>])]
C02All(u) == { C02SerialShort(v) : v \in {"tcp", "tcp_paris"} } \cup { C02SerialTail(v) : v \in {"tcp", "tcp_paris"} } \cup { C02Of(p) : p \in C02Core \cup RandomSubset(u, C02Params) }

---------------------------------------------------------------------------
(***************************************************************************)
(* C04: responder x form matrix at TTL 3 of a 5-hop path whose real        *)
(* destination answers at TTL 5.                                           *)
(***************************************************************************)
C04Forms(v) == {"te", "te_reass"} \cup DestForms(v) \cup (IF v \in {"udp4", "udp6"} THEN {} ELSE {"du_port"})
Responders(v) == {"TARGET", Router(v, 3), Foreign(v, 9)}
C04Scen(v, strict, form, resp, late) ==
    Common(v, strict, BaseMid, 1, 5) @@
    [id |-> "C04/" \o v \o "/" \o (IF strict THEN "strict" ELSE "relaxed") \o "/" \o form \o "/" \o resp \o (IF late THEN "/with_dest" ELSE "/no_dest"),
     label |-> v \o "/" \o form \o "/from_" \o (IF resp = "TARGET" THEN "target" ELSE IF resp = Router(v, 3) THEN "router" ELSE "foreign"),
     path |-> PathOf([t \in 1..5 |->
                IF t = 3 THEN <<[form |-> form, from |-> resp, delay_us |-> 4000, tag |-> "x"]>>
                ELSE IF t = 5 /\ late THEN <<Dest(v, 9000)>>
                ELSE IF t = 5 THEN <<>>
                ELSE <<TE(v, t, 3000 + 500 * t)>>])]
\* every destination-unreachable CODE (IPv4 0..15, IPv6 0..7) from the target and from a router: for UDP the target's is the
\* proof of arrival whatever its code, the router's is a hop; for the other variants none of them proves anything
DuCodes(v) == IF IsV6(v) THEN 0..7 ELSE 0..15
C04Code(v, code, resp) ==
    [C04Scen(v, TRUE, "du_port", resp, TRUE) EXCEPT
        !.id = "C04/" \o v \o "/du_code/" \o ToString(code) \o "/" \o resp,
        !.label = v \o "/du_code" \o ToString(code) \o "/from_" \o (IF resp = "TARGET" THEN "target" ELSE "router"),
        !.path = [@ EXCEPT !["3"] = <<[form |-> "du_port", from |-> resp, delay_us |-> 4000, tag |-> "x", mods |-> [icode |-> code]]>>]]
C04Codes == UNION { { C04Code(v, c, r) : c \in DuCodes(v), r \in {"TARGET", Router(v, 3)} } : v \in Variants }
\* SACK: the target's own time-exceeded (a proof of arrival for this variant) is read AFTER a selective ACK for a higher TTL was:
\* the mark does not depend on what was seen before
C04SackTeLate(strict, k, teDelay) ==
    Common("sack", strict, BaseMid, 1, 5) @@
    [id |-> "C04/sack/" \o (IF strict THEN "strict" ELSE "relaxed") \o "/te_from_target_after_sack/" \o ToString(k) \o "/" \o ToString(teDelay),
     label |-> "sack/te/from_target/after_a_selective_ack",
     path |-> PathOf([t \in 1..5 |-> IF t = k THEN <<[form |-> "te", from |-> "TARGET", delay_us |-> teDelay, tag |-> "x"]>>
                                      ELSE IF t > k THEN <<Dest("sack", 2000)>> ELSE <<TE("sack", t, 3000 + 500 * t)>>])]
\* ICMP towards a MULTICAST group address (legal, traced like any other target): an echo reply from a member's own address is not
\* a reply from the target - the matcher's rule is the same for every target
C04Group(v, grp) ==
    [Common(v, TRUE, BaseMid, 1, 4) EXCEPT !.min = 1] @@
    [id |-> "C04/" \o v \o "/group_target/" \o grp, label |-> v \o "/echo/from_foreign/multicast_target", target |-> grp,
     path |-> PathOf([t \in 1..4 |-> IF t >= 2 THEN <<[form |-> "echo", from |-> Foreign(v, 7), delay_us |-> 4000, tag |-> "x"]>> ELSE <<TE(v, t, 3000)>>])]
C04All(u) == { C04SackTeLate(s, k, d) : s \in BOOLEAN, k \in {2, 3}, d \in {100000, 250000} }
             \cup { C04Group("icmp4", "224.0.0.1"), C04Group("icmp4", "239.1.2.3"), C04Group("icmp6", "ff02::1"), C04Group("icmp6", "ff0e::99") }
             \cup C04Codes \cup UNION { { C04Scen(v, s, f, r, l) : s \in StrictOpts(v), f \in C04Forms(v), r \in Responders(v), l \in BOOLEAN } : v \in Variants }

---------------------------------------------------------------------------
(***************************************************************************)
(* C05: per-hop delay assignments at production scale (timeout 3 s, poll   *)
(* 100 ms, send delay 250 ms >= 2 polls): non-monotone delays, duplicates  *)
(* with a larger delay, replies overtaking each other.                     *)
(***************************************************************************)
DelaySet == {7300, 133700, 481100}
C05Scen(v, strict, ds, dupAt, destDelay) ==
    [variant |-> v, strict |-> strict, min |-> 1, max |-> 4, timeout_ms |-> 3000, delay_ms |-> 250,
     ipid_base |-> 41821, echo_base |-> 40000, seq_base32 |-> <<4660, 22136>>, isn32 |-> <<4660, 22136>>, sack_perm |-> TRUE, sack_ts |-> TRUE,
     id |-> "C05/" \o v \o "/" \o ToString(ds[1]) \o "-" \o ToString(ds[2]) \o "-" \o ToString(ds[3]) \o "/dup" \o ToString(dupAt) \o "/" \o ToString(destDelay),
     label |-> v \o "/delays/dup" \o ToString(dupAt),
     path |-> PathOf([t \in 1..4 |->
                IF t = 4 THEN <<[form |-> DestForm1(v), delay_us |-> destDelay, dup |-> IF dupAt = 4 THEN 1 ELSE 0, dup_us |-> 377000]>>
                ELSE <<[form |-> "te", from |-> Router(v, t), delay_us |-> ds[t], dup |-> IF dupAt = t THEN 1 ELSE 0, dup_us |-> 377000]>>])]
\* serial engine: a direct reply that arrives only in the NEXT probe's window (slower than the per-TTL timeout), and a router
\* reply that late; in Paris mode it answers the earlier probe only
C05Late(v, form, which) ==
    [variant |-> v, strict |-> TRUE, min |-> 1, max |-> 4, timeout_ms |-> 3000, delay_ms |-> 250,
     ipid_base |-> 41821, echo_base |-> 40000, seq_base32 |-> <<4660, 22136>>, isn32 |-> <<4660, 22136>>, sack_perm |-> TRUE, sack_ts |-> FALSE,
     id |-> "C05/late/" \o v \o "/" \o form \o "/" \o ToString(which), label |-> v \o "/late_" \o form \o "/ttl" \o ToString(which),
     path |-> PathOf([t \in 1..4 |->
                IF t = which THEN <<[form |-> form, from |-> IF form = "te" THEN Router(v, t) ELSE "TARGET", delay_us |-> 3000000 + 150700]>>
                ELSE IF t = 4 THEN <<[form |-> "synack", delay_us |-> 800300]>>
                ELSE <<[form |-> "te", from |-> Router(v, t), delay_us |-> 20100 * t]>>])]
\* replies that the receiver handles while the sender is still inside the write of their probe (eager schedule class), one of them
\* duplicated 377 ms later: the hop's RTT is the first reply's (0 on the virtual clock), never the duplicate's
C05Eager(v, dupAt) ==
    [variant |-> v, strict |-> TRUE, min |-> 1, max |-> 4, timeout_ms |-> 3000, delay_ms |-> 250, eager |-> TRUE,
     ipid_base |-> 41821, echo_base |-> 40000, seq_base32 |-> <<4660, 22136>>, isn32 |-> <<4660, 22136>>, sack_perm |-> TRUE, sack_ts |-> TRUE,
     id |-> "C05/eager/" \o v \o "/dup" \o ToString(dupAt), label |-> v \o "/eager/dup" \o ToString(dupAt),
     path |-> PathOf([t \in 1..4 |->
                IF t = 4 THEN <<[form |-> DestForm1(v), delay_us |-> 0, dup |-> IF dupAt = 4 THEN 1 ELSE 0, dup_us |-> 377000]>>
                ELSE <<[form |-> "te", from |-> Router(v, t), delay_us |-> 0, dup |-> IF dupAt = t THEN 1 ELSE 0, dup_us |-> 377000]>>])]
\* SACK: the first reply accepted for the destination TTL is a duplicate ACK whose blocks lie on both sides of the 2^32 wrap
\* (isn + 4 = 2^32 - 1, isn + 6 = 1): it answers the LOWEST relative block (TTL 4, RTT 601.3 ms), not the numerically smallest edge
C05SackWrap(extra, desc, b) ==
    [variant |-> "sack", strict |-> FALSE, min |-> 1, max |-> 6, timeout_ms |-> 3000, delay_ms |-> 250,
     ipid_base |-> 41821, echo_base |-> 40000, seq_base32 |-> b.seq_base, isn32 |-> b.isn, sack_perm |-> TRUE, sack_ts |-> FALSE,
     id |-> "C05/sackwrap/" \o b.name \o "/" \o ToJson(extra) \o (IF desc THEN "d" ELSE "a"), label |-> "sack/blocks_across_wrap/" \o b.name \o "/" \o ToString(Len(extra)),
     path |-> PathOf([t \in 1..6 |->
                IF t = 4 THEN <<[form |-> "sack", delay_us |-> 601300, extra |-> extra, desc |-> desc]>>
                ELSE IF t = 5 THEN <<>>
                ELSE IF t = 6 THEN <<[form |-> "sack", delay_us |-> 450000, extra |-> <<4>>, desc |-> desc]>>
                ELSE <<[form |-> "te", from |-> Router("sack", t), delay_us |-> 7300]>>])]
\* the write of probe 2 blocks inside the sink for 400 ms (a full send buffer, a shaping qdisc) while the answer to probe 1 arrives:
\* hop 1's RTT is still its own 120 ms. REAL clock: a lock held across the blocked write would freeze a virtual clock.
C05Stall(v) ==
    [variant |-> v, strict |-> FALSE, min |-> 1, max |-> 3, timeout_ms |-> 700, delay_ms |-> 50, realclock |-> TRUE,
     ipid_base |-> 41821, echo_base |-> 40000, seq_base32 |-> <<4660, 22136>>, isn32 |-> <<4660, 22136>>, sack_perm |-> TRUE, sack_ts |-> FALSE,
     id |-> "C05/stall/" \o v, label |-> v \o "/write_blocks_while_reply_arrives",
     write_stall_us |-> [x \in {"2"} |-> 400000],
     path |-> PathOf([t \in 1..3 |-> IF t = 3 THEN <<[form |-> DestForm1(v), delay_us |-> 30000]>> ELSE <<[form |-> "te", from |-> Router(v, t), delay_us |-> IF t = 1 THEN 120000 ELSE 30000]>>])]
\* identifier bases at their wrap-around points: the RTT of every hop is still measured from ITS OWN probe
C05Base(v, b, dd) ==
    [C05Scen(v, TRUE, [t \in 1..3 |-> IF t = 2 THEN 133700 ELSE 7300], 0, dd) EXCEPT
        !.id = "C05/base/" \o v \o "/" \o b.name \o "/" \o ToString(dd), !.label = v \o "/delays/identifier_wrap",
        !.ipid_base = b.ipid_base, !.echo_base = b.echo_base, !.seq_base32 = b.seq_base, !.isn32 = b.isn]
C05All(u) == { C05Base(v, b, dd) : v \in Variants, b \in Bases \ {BaseMid}, dd \in {9100, 601300} } \cup { C05Stall(v) : v \in {"icmp4", "udp4", "udp6", "sack"} } \cup { C05Scen(v, TRUE, ds, du, dd) : v \in Variants, ds \in [1..3 -> DelaySet], du \in 0..4, dd \in {9100, 601300} }
             \cup { C05Late(v, f, w) : v \in {"tcp", "tcp_paris"}, f \in {"synack", "rstack", "rst", "te"}, w \in {2, 3} }
             \cup { C05Eager(v, du) : v \in Variants, du \in 0..4 }
             \cup { C05SackWrap(x, d, b) : x \in {<<6>>, <<5, 6>>, <<>>}, d \in BOOLEAN, b \in {bb \in Bases : bb.name \in {"wrap5", "mid", "wrap"}} }

---------------------------------------------------------------------------
(***************************************************************************)
(* C06: emission.  Full 255-TTL runs for every variant and identifier      *)
(* base, and destination replies at every position relative to pacing.     *)
(***************************************************************************)
C06Full(v, b, mn, mx) ==
    [variant |-> v, strict |-> TRUE, min |-> mn, max |-> mx, timeout_ms |-> 200, delay_ms |-> 2,
     ipid_base |-> b.ipid_base, echo_base |-> b.echo_base, seq_base32 |-> b.seq_base, isn32 |-> b.isn, sack_perm |-> TRUE, sack_ts |-> (b.name = "wrap"),
     id |-> "C06/full/" \o v \o "/" \o b.name \o "/" \o ToString(mn) \o "-" \o ToString(mx), label |-> v \o "/full/" \o ToString(mn) \o "-" \o ToString(mx),
     path |-> PathOf([t \in {mn, mx} |-> IF t = mn THEN <<TE(v, t, 1000)>> ELSE <<>>])]
C06Dest(v, b, dt, dd) ==
    [variant |-> v, strict |-> TRUE, min |-> 1, max |-> 8, timeout_ms |-> 300, delay_ms |-> 30,
     ipid_base |-> b.ipid_base, echo_base |-> b.echo_base, seq_base32 |-> b.seq_base, isn32 |-> b.isn, sack_perm |-> TRUE, sack_ts |-> FALSE,
     id |-> "C06/dest/" \o v \o "/" \o b.name \o "/" \o ToString(dt) \o "/" \o ToString(dd), label |-> v \o "/stop_after_dest",
     path |-> PathOf([t \in 1..8 |-> IF t >= dt THEN <<Dest(v, dd)>> ELSE <<TE(v, t, 2000)>>])]
\* the destination (and every router) answers while the sender is still inside the write of that probe
C06Eager(v, dt) == [C06Dest(v, BaseMid, dt, 0) EXCEPT !.id = "C06/eager/" \o v \o "/" \o ToString(dt), !.label = v \o "/stop_after_dest/eager"] @@ [eager |-> TRUE]
\* IPv4 header checksum at its carry edge: the ones-complement sum of the SYN probe's header words (0x4500, length 40, id, 0, ttl|6,
\* source 10.77.0.1, destination 198.51.100.9) folds to 16 bits with a SECOND carry for very few (id, ttl) pairs; identifier bases
\* are chosen so that a probe with TTL 2..8 of a default-mode SYN run is such a pair
CsumSum(id, ttl) == 17664 + 40 + id + (ttl * 256 + 6) + 2637 + 1 + 50739 + 25609
CsumEdge(id, ttl) == LET S == CsumSum(id, ttl) IN (S % 65536) + (S \div 65536) >= 65536
EdgeBases == {b \in 0..65535 : \E t \in 2..8 : CsumEdge((b + t) % 65536, t)}
C06Csum(b) ==
    [C06Full("tcp", BaseMid, 1, 8) EXCEPT !.id = "C06/csum_edge/" \o ToString(b), !.label = "tcp/header_checksum_carry_edge", !.ipid_base = b]
C06CsumAll(u) == LET e == SetToSeq(EdgeBases) IN { C06Csum(e[i]) : i \in 1..(IF Len(e) < 6 THEN Len(e) ELSE 6) }
\* one send blocks inside the sink for 220 ms (a full buffer, a slow logger, a descheduled process): the probes after it are still
\* one delay apart - lost time is not made up for by sending back to back. REAL clock (a blocking write).
C06Stall(v) ==
    [variant |-> v, strict |-> FALSE, min |-> 1, max |-> 7, timeout_ms |-> 400, delay_ms |-> 50, realclock |-> TRUE,
     ipid_base |-> 41821, echo_base |-> 40000, seq_base32 |-> <<4660, 22136>>, isn32 |-> <<4660, 22136>>, sack_perm |-> TRUE, sack_ts |-> FALSE,
     id |-> "C06/stall/" \o v, label |-> v \o "/pacing_after_a_blocked_send",
     write_stall_us |-> [x \in {"3"} |-> 220000],
     path |-> PathOf([t \in {1} |-> <<>>])]
C06All(u) == { C06Stall(v) : v \in {"icmp4", "udp4", "udp6", "sack"} } \cup C06CsumAll(u) \cup { C06Eager(v, dt) : v \in Variants, dt \in {2, 3, 5} } \cup { C06Full(v, b, r[1], r[2]) : v \in Variants, b \in Bases, r \in {<<1, 255>>, <<200, 255>>, <<1, 30>>} }
          \cup { C06Dest(v, b, dt, dd) : v \in Variants, b \in Bases, dt \in {1, 2, 5, 8}, dd \in {500, 29000, 31000, 95000} }

---------------------------------------------------------------------------
(***************************************************************************)
(* C08 (wire level): silence, floods of irrelevant packets, bursts, and    *)
(* every cancellation instant of a small grid (ties with the poll grid,    *)
(* the send grid and the global timeout included).                         *)
(***************************************************************************)
C08Base(v, b) == Common(v, TRUE, b, 1, 4)
C08Silence(v) == C08Base(v, BaseMid) @@ [id |-> "C08/" \o v \o "/silence", label |-> v \o "/silence", path |-> PathOf([t \in 1..4 |-> <<>>])]
C08Flood(v, kind, n) ==
    C08Base(v, BaseMid) @@ [id |-> "C08/" \o v \o "/flood/" \o kind \o "/" \o ToString(n), label |-> v \o "/flood/" \o kind,
                            flood_n |-> n, flood_us |-> 5000, flood_kind |-> kind, path |-> Background(v, 1, 4, 0, {2})]
C08Sack(mode) ==
    C08Base("sack", BaseMid) @@ [id |-> "C08/sack/" \o mode, label |-> "sack/" \o mode, path |-> PathOf([t \in 1..4 |-> <<>>]),
                                 no_synack |-> (mode = "no_synack"), sack_perm |-> (mode # "no_sackperm"),
                                 synack_us |-> IF mode = "late_synack" THEN 499000 ELSE 0]
CancelGridUs == {1, 5000, 20000, 40000, 100000, 123456, 200000, 399999, 400000, 479999, 480000, 480001, 560000}
C08Cancel(v, c, answered) ==
    C08Base(v, BaseMid) @@ [id |-> "C08/" \o v \o "/cancel/" \o ToString(c) \o (IF answered THEN "/path" ELSE "/silent"),
                            label |-> v \o "/cancel", cancel_us |-> c,
                            path |-> IF answered THEN Background(v, 1, 4, 4, {}) ELSE PathOf([t \in 1..4 |-> <<>>])]
\* the SACK handshake never sees its own SYN-ACK while SYN-ACKs of other connections to the same target keep arriving
C08SackStream(us) ==
    C08Base("sack", BaseMid) @@ [id |-> "C08/sack/synack_stream/" \o ToString(us), label |-> "sack/synack_stream", path |-> PathOf([t \in 1..4 |-> <<>>]),
                                 no_synack |-> TRUE, flood_n |-> 1, flood_us |-> us, flood_kind |-> "synack_other", flood_at_open |-> TRUE,
                                 t_local |-> "10.77.0.1", t_target |-> "198.51.100.9", t_dport |-> 33434]
\* SACK: the target's application keeps ITS half of the handshake connection open after the run (it never reads, never closes):
\* the run returns within its bound all the same. REAL clock: deadlines on a kernel socket are real time.
C08SackPeerOpen ==
    [C08Base("sack", BaseMid) EXCEPT !.timeout_ms = 300] @@
    [id |-> "C08/sack/peer_keeps_connection_open", label |-> "sack/peer_keeps_connection_open", realclock |-> TRUE,
     \* the FIN budget of the deadline is large (production: 500 s): it is not part of the bound - nothing may wait for the peer's FIN
     extra |-> [fin_timeout_ms |-> 6000],
     path |-> Background("sack", 1, 4, 3, {})]
C08All(u) ==
    { C08SackPeerOpen } \cup { C08Silence(v) : v \in Variants }
    \cup { C08SackStream(us) : us \in {100000, 333000, 499000} }
    \cup { C08Flood(v, k, n) : v \in Variants, k \in {"foreign_te", "junk", "foreign_tcp"}, n \in {3, 40} }
    \cup { C08Sack(m) : m \in {"no_synack", "late_synack", "no_sackperm"} }
    \cup { C08Cancel(v, c, a) : v \in {"icmp4", "icmp6", "sack"}, c \in CancelGridUs, a \in BOOLEAN }

---------------------------------------------------------------------------
(***************************************************************************)
(* C09: junk classes.  A junk packet is a genuine reply (about TTL 3,      *)
(* which the background path leaves silent) damaged by truncation, byte    *)
(* patches or garbage; it is injected at a TLC-chosen instant of a run     *)
(* that is paired with its noise-free twin.                                *)
(***************************************************************************)
Junk(label, form, patch, trunc, app) == [label |-> label, form |-> form, patch |-> patch, trunc |-> trunc, append |-> app]
IPHdr(v) == IF IsV6(v) THEN 40 ELSE 20
JunkSet(v) ==
    LET forms == {"te", DestForm1(v)} \cup (IF v \in {"tcp", "tcp_paris"} THEN {"rst"} ELSE {})
        h == IPHdr(v)
    IN  \* every truncation length of every genuine reply form
        { Junk(f \o "/trunc" \o ToString(n), f, <<>>, n, 0) : f \in forms, n \in 1..95 }
        \* version nibble, header length nibble
        \cup { Junk(f \o "/ver" \o ToString(x), f, <<<<0, x * 16 + 5>>>>, 0, 0) : f \in forms, x \in (0..15) \ {IF IsV6(v) THEN 6 ELSE 4} }
        \cup (IF IsV6(v) THEN
                  \* payload length lies, next-header chains that are too short / unknown
                  { Junk(f \o "/plen" \o ToString(x), f, <<<<4, x \div 256>>, <<5, x % 256>>>>, 0, 0) : f \in forms, x \in {0, 1, 7, 65535} }
                  \cup { Junk(f \o "/nh" \o ToString(x), f, <<<<6, x>>>>, 0, 0) : f \in forms, x \in {0, 43, 44, 50, 60, 59, 255} }
              ELSE
                  { Junk(f \o "/ihl" \o ToString(x), f, <<<<0, 64 + x>>>>, 0, 0) : f \in forms, x \in (0..15) \ {5} }
                  \cup { Junk(f \o "/totlen" \o ToString(x), f, <<<<2, x \div 256>>, <<3, x % 256>>>>, 0, 0) : f \in forms, x \in {0, 19, 20, 27, 65535} }
                  \cup { Junk(f \o "/frag", f, <<<<6, 32>>, <<7, 9>>>>, 0, 0) : f \in forms }
                  \cup { Junk(f \o "/proto" \o ToString(x), f, <<<<9, x>>>>, 0, 0) : f \in forms, x \in {0, 2, 41, 47, 50, 132, 255} })
        \* the quoted header of an ICMP error: version / length nibble, quoted protocol
        \cup { Junk("te/qver" \o ToString(x), "te", <<<<h + 8, x>>>>, 0, 0) : x \in {0, 15, 64, 69, 70, 79, 96, 255} }
        \* TCP data offset lies on direct TCP replies
        \cup (IF v \in {"tcp", "tcp_paris", "sack"}
              THEN { Junk(DestForm1(v) \o "/doff" \o ToString(x), DestForm1(v), <<<<h + 12, x * 16>>>>, 0, 0) : x \in {0, 1, 4, 15} }
                   \cup { Junk(DestForm1(v) \o "/optlen" \o ToString(x), DestForm1(v), <<<<h + 21, x>>>>, 0, 0) : x \in {0, 1, 255} }
              ELSE {})
        \* valid headers followed by garbage
        \cup { Junk(f \o "/garbage" \o ToString(n), f, <<>>, 0, n) : f \in forms, n \in {1, 7, 400, 900} }
        \* well-formed TCP segments of OTHER connections of the target (one port in common with the probed one): not ours, skipped -
        \* in particular a plain ACK of another connection is not "the target acknowledging on the probed connection without SACK blocks"
        \cup (IF v \in {"tcp", "tcp_paris", "sack"}
              THEN { Junk(f \o "/other_connection/" \o m[1], f, <<>>, 0, 0) @@ [from |-> "TARGET", mods_d |-> m[2]]
                        : f \in {"ack_nosack", "synack", "rst"}, m \in {<<"sport+1", [sport |-> 1]>>, <<"dport+1", [dport |-> 1]>>, <<"dport-1000", [dport |-> -1000]>>} }
              ELSE {})

\* packets of the wrong IP version that carry the right identifiers: the IPv6 rendering of a genuine IPv4 reply between the
\* IPv4-MAPPED addresses (::ffff:a.b.c.d) is not a reply to an IPv4 probe; and on the probed SACK connection itself a
\* duplicate ACK whose only block is EMPTY (left edge = right edge, far from anything sent) acknowledges nothing: skipped
JunkMore(v) ==
    (IF IsV6(v) \/ v \in {"tcp", "tcp_paris", "sack"} THEN {} ELSE
        { Junk("te/mapped6", "te", <<>>, 0, 0) @@ [mapped6 |-> TRUE] }
        \cup (IF v = "icmp4" THEN { Junk("echo/mapped6", "echo", <<>>, 0, 0) @@ [mapped6 |-> TRUE, from |-> "TARGET"] } ELSE {}))
    \cup (IF v = "sack" THEN { Junk("sack/empty_block/" \o ToString(e), "sack", <<>>, 0, 0) @@ [from |-> "TARGET", mods |-> [sack_width |-> 0], mods_d |-> [sack_left |-> e]]
                                   : e \in {1000000, -70000} }
                          \* ... and one whose SACK option data is not a multiple of 8 bytes (12 / 4 bytes), edges far from anything sent
                          \cup { Junk("sack/odd_option/" \o ToString(n), "sack", <<>>, 0, 0) @@ [from |-> "TARGET", extra |-> <<5>>, mods |-> [sack_trim |-> n], mods_d |-> [sack_left |-> 3000000]]
                                   : n \in {4, 12} } ELSE {})

C09Clean(v, s, b) == Common(v, s, b, 1, 4) @@ [id |-> "C09/" \o v \o "/" \o b.name \o "/clean", label |-> v \o "/clean", path |-> Background(v, 1, 4, 4, {3})]
\* batches of junk (all of it must be ignored, so one run absorbs many); the check re-runs a violating batch one packet at a time
C09Noisy(v, s, b, js, k, at) ==
    Common(v, s, b, 1, 4) @@
    [id |-> "C09/" \o v \o "/" \o b.name \o "/noisy/" \o ToString(k) \o "/" \o ToString(at), twin |-> "C09/" \o v \o "/" \o b.name \o "/clean",
     label |-> v \o "/junk-batch", path |-> Background(v, 1, 4, 4, {3}),
     inject |-> [i \in 1..Len(js) |-> [at_us |-> at + 37 * i, for_ttl |-> 3, form |-> js[i].form,
                                       from |-> IF "from" \in DOMAIN js[i] THEN js[i].from ELSE Foreign(v, 100 + (i % 100)),
                                       mods_d |-> IF "mods_d" \in DOMAIN js[i] THEN js[i].mods_d ELSE NoMods,
                                       mods |-> IF "mods" \in DOMAIN js[i] THEN js[i].mods ELSE NoMods,
                                       mapped6 |-> IF "mapped6" \in DOMAIN js[i] THEN js[i].mapped6 ELSE FALSE,
                                       extra |-> IF "extra" \in DOMAIN js[i] THEN js[i].extra ELSE <<>>,
                                       patch |-> js[i].patch, trunc |-> js[i].trunc, append |-> js[i].append, tag |-> js[i].label]]]
Chunks(sq, n) == [k \in 1..((Len(sq) + n - 1) \div n) |-> SubSeq(sq, (k - 1) * n + 1, IF k * n > Len(sq) THEN Len(sq) ELSE k * n)]
\* a steady stream of packets that must be skipped (4 per millisecond: truncated junk / a time-exceeded about somebody else's flow /
\* segments of other connections) all through the run - many more than there are polls in a hop's listening time
C09Flood(v, kind) ==
    Common(v, TRUE, BaseMid, 1, 4) @@
    [id |-> "C09/" \o v \o "/flood/" \o kind, twin |-> "C09/" \o v \o "/" \o BaseMid.name \o "/clean", label |-> v \o "/skipped-packet-stream/" \o kind,
     path |-> Background(v, 1, 4, 4, {3}), flood_n |-> 2, flood_us |-> 500, flood_kind |-> kind]
C09All(u) ==
    UNION { { C09Flood(v, k) : k \in {"junk", "te_other", "foreign_tcp"} } : v \in Variants } \cup
    UNION { LET ch == Chunks(SetToSeq(JunkSet(v)) \o SetToSeq(JunkMore(v)), 20) IN
            { C09Clean(v, TRUE, BaseMid) } \cup { C09Noisy(v, TRUE, BaseMid, ch[k], k, at) : k \in DOMAIN ch, at \in {500, 30000, 200000} }
          : v \in Variants }

---------------------------------------------------------------------------
(***************************************************************************)
(* C10: fault injection points: the k-th call of every Source/Sink         *)
(* operation and of the two constructors x error class.                    *)
(***************************************************************************)
FaultPoints(v) ==
    { [op |-> "newsink", k |-> 1, class |-> "fatal"], [op |-> "newsource", k |-> 1, class |-> "fatal"],
      [op |-> "setfilter", k |-> 1, class |-> "fatal"] }
    \cup (IF v = "sack" THEN { [op |-> "setfilter", k |-> 2, class |-> "fatal"] } ELSE {})
    \cup { [op |-> "setdeadline", k |-> k, class |-> "fatal"] : k \in {1, 2, 3, 6} }
    \cup { [op |-> "read", k |-> k, class |-> c] : k \in {1, 2, 3, 4, 7}, c \in {"fatal", "zero", "deadline"} }
    \cup { [op |-> "write", k |-> k, class |-> "fatal"] : k \in {1, 2, 3, 4} }
    \* a send the kernel refuses with an errno (no buffer space, filtered locally): a failed send like any other
    \cup { [op |-> "write", k |-> k, class |-> c] : k \in {1, 2}, c \in {"enobufs", "eperm"} }
    \cup { [op |-> "close_sink", k |-> 1, class |-> "fatal"], [op |-> "close_source", k |-> 1, class |-> "fatal"] }
C10Scen(v, f, answered) ==
    Common(v, TRUE, BaseMid, 1, 4) @@
    [id |-> "C10/" \o v \o "/" \o f.op \o "/" \o ToString(f.k) \o "/" \o f.class \o (IF answered THEN "/path" ELSE "/silent"),
     label |-> v \o "/" \o f.op \o "#" \o ToString(f.k) \o "/" \o f.class,
     faults |-> <<f>>, path |-> IF answered THEN Background(v, 1, 4, 4, {2}) ELSE PathOf([t \in 1..4 |-> <<>>])]
C10OnFault(v, k) ==
    Common(v, TRUE, BaseMid, 1, 4) @@
    [id |-> "C10/" \o v \o "/write/" \o ToString(k) \o "/while_dest", label |-> v \o "/write#" \o ToString(k) \o "/while_dest_reply_handled",
     faults |-> <<[op |-> "write", k |-> k, class |-> "fatal", run |-> 0, with |-> [form |-> DestForm1(v), delay_us |-> 0]]>>,
     path |-> PathOf([t \in 1..4 |-> <<>>])]
C10All(u) == { C10OnFault(v, k) : v \in {"icmp4", "icmp6", "udp4", "udp6", "sack"}, k \in {2, 3, 4} } \cup UNION { { C10Scen(v, f, a) : f \in FaultPoints(v), a \in BOOLEAN } : v \in Variants }
                \cup { Common(v, TRUE, BaseMid, 1, 4) @@ [id |-> "C10/" \o v \o "/nofault", label |-> v \o "/nofault", path |-> Background(v, 1, 4, 4, {2})] : v \in Variants }

---------------------------------------------------------------------------
(***************************************************************************)
(* C14: schedule classes for the race detector.  For every TTL of a        *)
(* parallel-capable variant the reply is delivered BEFORE its probe is     *)
(* recorded (pre-queued: stale duplicates, spoofed early replies), AT the  *)
(* instant of the send, or after it; duplicates included.  The wire is in  *)
(* unsynchronised mode: the sink shares no state with the capture handle.  *)
(***************************************************************************)
ParVariants == {"icmp4", "icmp6", "udp4", "udp6", "sack"}
C14Scen(v, cls, dupl) ==
    LET mn == 1  mx == 8  dly == 10000
        at(t) == CASE cls = "early" -> t                       \* long before probe t is recorded
                   [] cls = "tie" -> (t - mn) * dly           \* at the very instant probe t is being sent
                   [] cls = "after" -> (t - mn) * dly + 1500
                   [] cls = "nexttie" -> (t - mn + 1) * dly  \* at the very instant the NEXT probe is being sent
                   [] cls = "afternext" -> (t - mn + 1) * dly + 2500  \* shortly after the NEXT probe was sent (or failed to be)
                   [] OTHER -> IF t % 2 = 0 THEN t ELSE (t - mn) * dly + 700
        form(t) == IF t = mx THEN DestForm1(v) ELSE "te"
    IN [id |-> "C14/" \o v \o "/" \o cls \o (IF dupl THEN "/dup" ELSE ""), label |-> v \o "/" \o cls \o (IF dupl THEN "/dup" ELSE ""),
        variant |-> v, strict |-> FALSE, min |-> mn, max |-> mx, timeout_ms |-> 200, delay_ms |-> 10,
        echo_base |-> 700, isn32 |-> <<65535, 65500>>, sack_perm |-> TRUE, sack_ts |-> FALSE,
        unsync |-> TRUE, t_variant |-> v, t_eid |-> 701, t_dport |-> 33434,
        t_local |-> IF IsV6(v) THEN "2001:db8:77::1" ELSE "10.77.0.1", t_target |-> IF IsV6(v) THEN "2001:db8:99::9" ELSE "198.51.100.9",
        path |-> PathOf([t \in {1} |-> <<>>]),
        inject |-> [k \in 1..(mx - mn + 1) |-> [at_us |-> at(mn + k - 1), for_ttl |-> mn + k - 1, form |-> form(mn + k - 1),
                                              from |-> IF form(mn + k - 1) = "te" THEN Router(v, mn + k - 1) ELSE "TARGET",
                                              dup |-> IF dupl THEN 1 ELSE 0, dup_us |-> 2500, tag |-> cls]]]
\* a target one hop away that negotiated TCP timestamps: EVERY probe is answered by a selective ACK (with an advancing TSval) while
\* the sender is still sending
C14SackTS(cls, dupl) ==
    LET base == C14Scen("sack", cls, dupl) IN
    [base EXCEPT !.id = @ \o "/all_sack_ts", !.label = @ \o "/all_sack_ts", !.sack_ts = TRUE,
                 !.inject = [k \in DOMAIN base.inject |-> [base.inject[k] EXCEPT !.form = "sack", !.from = "TARGET"]]]
\* the same schedule classes while the k-th send FAILS (the sender's error path runs while the receiver handles a reply), and with
\* trace-level logging switched on (the logging closures run on the sending and on the receiving goroutine)
C14WriteFails(v, cls, k) ==
    LET base == C14Scen(v, cls, FALSE) IN
    [base EXCEPT !.id = @ \o "/write_fails/" \o ToString(k), !.label = @ \o "/write_fails"] @@ [faults |-> <<[op |-> "write", k |-> k, class |-> "eperm"]>>]
C14Verbose(v, cls, dupl) ==
    LET base == C14Scen(v, cls, dupl) IN
    [base EXCEPT !.id = @ \o "/trace_logging", !.label = @ \o "/trace_logging"] @@ [extra |-> [verbose |-> TRUE]]
C14All(u) == { C14WriteFails(v, c, k) : v \in ParVariants, c \in {"tie", "after", "nexttie", "afternext"}, k \in {2, 3, 5} }
             \cup { C14Scen(v, "afternext", d) : v \in ParVariants, d \in BOOLEAN }
             \cup { C14Verbose(v, c, d) : v \in ParVariants, c \in {"tie", "after", "nexttie"}, d \in BOOLEAN }
             \cup { C14SackTS(c, d) : c \in {"tie", "after", "nexttie"}, d \in BOOLEAN } \cup { C14Scen(v, "nexttie", d) : v \in ParVariants, d \in BOOLEAN } \cup { C14Scen(v, c, d) : v \in ParVariants, c \in {"early", "tie", "after", "mixed"}, d \in BOOLEAN }

---------------------------------------------------------------------------
(***************************************************************************)
(* C07 (wire level): SEVERAL accepted replies to ONE probe, through the    *)
(* real drivers of the parallel-capable variants - a router and then the   *)
(* destination (per-flow load balancing over paths of different length),   *)
(* the destination and then a router, two routers, the destination twice - *)
(* one millisecond apart (same poll) or 150 ms apart (a later poll).       *)
(***************************************************************************)
C07Pair(v, strict, ord, gap, k) ==
    LET r(us)  == [form |-> "te", from |-> Router(v, k), delay_us |-> us, tag |-> "g"]
        r2(us) == [form |-> "te", from |-> Foreign(v, 9), delay_us |-> us, tag |-> "g"]
        d(us)  == [form |-> DestForm1(v), delay_us |-> us, tag |-> "g"]
        a == 4000
        reps == CASE ord = "router_dest"    -> <<r(a), d(a + gap)>>
                  [] ord = "dest_router"    -> <<d(a), r(a + gap)>>
                  [] ord = "router_router2" -> <<r(a), r2(a + gap)>>
                  [] ord = "dest_dest"      -> <<d(a), d(a + gap)>>
                  [] ord = "router2_router_dest" -> <<r2(a), r(a + gap), d(a + 2 * gap)>>
    IN Common(v, strict, BaseMid, 1, 5) @@
       [id |-> "C07/wire/" \o v \o "/" \o (IF strict THEN "strict" ELSE "relaxed") \o "/" \o ord \o "/" \o ToString(gap) \o "/" \o ToString(k),
        label |-> v \o "/several_replies_to_one_probe/" \o ord \o "/" \o ToString(gap),
        path |-> PathOf([t \in 1..5 |-> IF t = k THEN reps ELSE IF t = 5 THEN <<Dest(v, 9000)>> ELSE <<TE(v, t, 3000 + 500 * t)>>])]
C07All(u) == UNION { { C07Pair(v, s, o, g, k) : s \in StrictOpts(v), o \in {"router_dest", "dest_router", "router_router2", "dest_dest", "router2_router_dest"},
                                              g \in {1000, 150000}, k \in {2, 3} } : v \in ParVariants }

---------------------------------------------------------------------------
(***************************************************************************)
(* C11 at the protocol entry points: a library user runs the SAME trace    *)
(* from several goroutines at once (same target and port; Paris mode with  *)
(* relaxed source checking, where the per-probe sequence number is the     *)
(* only thing that tells the runs apart - so it is NOT pinned here).       *)
(* Every run sees every ICMP error on the host; per-flow routers and       *)
(* per-flow delays make another run's answers arrive first.                *)
(***************************************************************************)
C11Same(v, strict, n, stag, fd) ==
    [variant |-> v, strict |-> strict, min |-> 1, max |-> 4, timeout_ms |-> 400, delay_ms |-> 20,
     ipid_base |-> 41821, echo_base |-> 40000, isn32 |-> <<4660, 22136>>, sack_perm |-> TRUE, sack_ts |-> FALSE,
     id |-> "C11/same/" \o v \o "/" \o (IF strict THEN "strict" ELSE "relaxed") \o "/" \o ToString(n) \o "/" \o ToString(stag) \o "/" \o ToString(fd[1]),
     label |-> v \o "/" \o (IF strict THEN "strict" ELSE "relaxed") \o "/same_trace_from_several_goroutines",
     per_flow |-> TRUE, flow_delay_us |-> fd, extra |-> [concurrent |-> n, stagger_us |-> stag],
     path |-> PathOf([t \in 1..4 |-> IF t = 4 THEN <<Dest(v, 9000)>> ELSE <<TE(v, t, 6000 + 1000 * t)>>])]
C11SameAll(u) == UNION { { C11Same(v, s, n, st, fd) : s \in StrictOpts(v), n \in {2, 3}, st \in {0, 1500}, fd \in {<<0, 0, 0>>, <<4000, 0, 2000>>} }
                         : v \in {"tcp_paris", "udp4", "udp6", "icmp4", "tcp"} }

---------------------------------------------------------------------------
Cases == CASE Gen = "C01" -> C01All(0)
           [] Gen = "C02" -> C02All(NMax)
           [] Gen = "C04" -> C04All(0)
           [] Gen = "C05" -> C05All(0)
           [] Gen = "C06" -> C06All(0)
           [] Gen = "C08" -> C08All(0)
           [] Gen = "C14" -> C14All(0)
           [] Gen = "C09" -> C09All(0)
           [] Gen = "C10" -> C10All(0)
           [] Gen = "C07" -> C07All(0)
           [] Gen = "C11" -> C11SameAll(0)
           [] OTHER -> {}

Sampled == Gen \in {"C02"}      \* families that sample their parameter space themselves
ASSUME LET c == Cases
           pk == IF ~Sampled /\ NMax > 0 /\ Cardinality(c) > NMax THEN RandomSubset(NMax, c) ELSE c
       IN /\ ndJsonSerialize(IOEnv.VT_OUT, SetToSeq(pk))
          /\ PrintT(<<"GEN", Gen, Cardinality(c), Cardinality(pk)>>)

VARIABLE x
Init == x = 0
Next == UNCHANGED x
=============================================================================
