------------------------------- MODULE GenWire -------------------------------
(***************************************************************************)
(* Scenario generator: the ENVIRONMENT half of the specification.  TLC     *)
(* enumerates network behaviours (reply forms and encodings, perturbations *)
(* of genuine replies, injection instants, faults, cancellation instants,  *)
(* identifier bases at their wrap-around points, parameter sets) as        *)
(* scenario records and writes them as ndjson; the harness executes each   *)
(* one against the real entry points over the simulated wire.              *)
(* Scenarios are symbolic in the flow identity: packets are described      *)
(* relative to the probe the code actually emits (mods / mods_d).          *)
(*                                                                         *)
(* Selected by environment: VT_GEN (family), VT_TIER, VT_OUT, VT_N.        *)
(***************************************************************************)
EXTENDS Integers, Sequences, FiniteSets, TLC, Json, IOUtils, Randomization, SequencesExt

Gen  == IOEnv.VT_GEN
Tier == IOEnv.VT_TIER
Quick == Tier = "quick"
NMax == atoi(IOEnv.VT_N)        \* sample size for the sampled families

Variants == {"icmp4", "icmp6", "udp4", "udp6", "tcp", "tcp_paris", "sack"}
IsV6(v) == v \in {"icmp6", "udp6"}
HasStrict(v) == v \in {"udp4", "udp6", "tcp", "tcp_paris", "sack"}
StrictOpts(v) == IF HasStrict(v) THEN {TRUE, FALSE} ELSE {TRUE}
IsSerialV(v) == v \in {"tcp", "tcp_paris"}

Router(v, t) == IF IsV6(v) THEN "fd00::" \o ToString(t) ELSE "10." \o ToString(t) \o ".0.1"
Foreign(v, k) == IF IsV6(v) THEN "2001:db8:f::" \o ToString(k) ELSE "192.0.2." \o ToString(k)
OtherLocal(v) == IF IsV6(v) THEN "2001:db8:77::2" ELSE "10.77.0.2"
OtherTarget(v) == IF IsV6(v) THEN "2001:db8:99::a" ELSE "198.51.100.10"

\* proof-of-arrival reply forms per variant
DestForms(v) == CASE v \in {"icmp4", "icmp6"} -> {"echo"}
                  [] v \in {"udp4", "udp6"}   -> {"du_port", "du_host", "du_admin"}
                  [] v \in {"tcp", "tcp_paris"} -> {"synack", "rst", "rstack"}
                  [] v = "sack" -> {"sack"}
DestForm1(v) == CASE v \in {"icmp4", "icmp6"} -> "echo"
                  [] v \in {"udp4", "udp6"}   -> "du_port"
                  [] v \in {"tcp", "tcp_paris"} -> "synack"
                  [] v = "sack" -> "sack"

TE(v, t, us) == [form |-> "te", from |-> Router(v, t), delay_us |-> us]
Dest(v, us) == [form |-> DestForm1(v), delay_us |-> us]

\* string-keyed path function from an integer-keyed one
PathOf(f) == [s \in {ToString(i) : i \in DOMAIN f} |-> f[CHOOSE i \in DOMAIN f : ToString(i) = s]]

\* identifier bases at and around wrap-around; 32-bit values as <<hi, lo>>
Bases == { [name |-> "mid",  ipid_base |-> 41821, echo_base |-> 40000, seq_base |-> <<4660, 22136>>, isn |-> <<4660, 22136>>],
           [name |-> "wrap", ipid_base |-> 65533, echo_base |-> 65533, seq_base |-> <<65535, 65534>>, isn |-> <<65535, 65533>>],
           [name |-> "zero", ipid_base |-> 65535, echo_base |-> 65535, seq_base |-> <<0, 0>>, isn |-> <<0, 0>>] }
BaseMid == CHOOSE b \in Bases : b.name = "mid"

\* the common part of a wire scenario
Common(v, strict, b, mn, mx) ==
    [variant |-> v, strict |-> strict, min |-> mn, max |-> mx, timeout_ms |-> 400, delay_ms |-> 20,
     ipid_base |-> b.ipid_base, echo_base |-> b.echo_base, seq_base32 |-> b.seq_base, isn32 |-> b.isn,
     sack_perm |-> TRUE, sack_ts |-> FALSE]

\* background path over TTLs mn..mx: routers answer except at 'silent'; the destination sits at ttl 'dt' (0: none)
Background(v, mn, mx, dt, silent) ==
    PathOf([t \in mn..mx |->
        IF dt # 0 /\ t >= dt THEN <<Dest(v, 9000 + 100 * (t - mn))>>
        ELSE IF t \in silent THEN <<>>
        ELSE <<TE(v, t, 3000 + 1100 * (t - mn))>>])

---------------------------------------------------------------------------
(***************************************************************************)
(* C01: single-field perturbations of genuine replies.                     *)
(* A perturbation is [label, form, mods_d, mods_s] applied to the reply    *)
(* for a TTL that the background path leaves SILENT, sent from a responder *)
(* address nobody else uses - so any hop created by it names its culprit.  *)
(***************************************************************************)
NoMods == [x \in {} |-> 0]
Pert(label, form, md, ms) == [label |-> label, form |-> form, mods_d |-> md, mods_s |-> ms]

QuotePerts(v) ==
    LET addr == { Pert("q_dst", "te", NoMods, [q_dst |-> OtherTarget(v)]) } \cup
                { Pert("q_src", "te", NoMods, [q_src |-> OtherLocal(v)]) }
        ports == IF v \in {"icmp4", "icmp6"} THEN {}
                 ELSE { Pert("q_dport+1", "te", [q_dport |-> 1], NoMods),
                        Pert("q_dport+256", "te", [q_dport |-> 256], NoMods),
                        Pert("q_sport+1", "te", [q_sport |-> 1], NoMods),
                        Pert("q_sport-256", "te", [q_sport |-> -256], NoMods) }
        ids == CASE v \in {"icmp4", "icmp6"} ->
                      { Pert("q_eid+1", "te", [q_eid |-> 1], NoMods), Pert("q_eid+256", "te", [q_eid |-> 256], NoMods),
                        Pert("q_eid-1", "te", [q_eid |-> -1], NoMods),
                        Pert("q_eseq+256", "te", [q_eseq |-> 256], NoMods), Pert("q_eseq+512", "te", [q_eseq |-> 512], NoMods),
                        Pert("q_eseq+32768", "te", [q_eseq |-> 32768], NoMods) }
                 [] v = "udp4" ->
                      { Pert("q_ipid+256", "te", [q_ipid |-> 256], NoMods), Pert("q_ipid+32768", "te", [q_ipid |-> 32768], NoMods),
                        Pert("q_ipid+100", "te", [q_ipid |-> 100], NoMods) }
                 [] v = "udp6" ->
                      { Pert("q_ulen+256", "te", [q_ulen |-> 256], NoMods), Pert("q_ulen+100", "te", [q_ulen |-> 100], NoMods) }
                 [] v \in {"tcp", "tcp_paris"} ->
                      { Pert("q_ipid+256", "te", [q_ipid |-> 256], NoMods), Pert("q_ipid+100", "te", [q_ipid |-> 100], NoMods),
                        Pert("q_seq+1", "te", [q_seq |-> 1], NoMods), Pert("q_seq+256", "te", [q_seq |-> 256], NoMods),
                        Pert("q_seq+65536", "te", [q_seq |-> 65536], NoMods) }
                 [] v = "sack" ->
                      { Pert("q_seq+256", "te", [q_seq |-> 256], NoMods), Pert("q_seq+65536", "te", [q_seq |-> 65536], NoMods),
                        Pert("q_seq+16777216", "te", [q_seq |-> 16777216], NoMods), Pert("q_seq-300", "te", [q_seq |-> -300], NoMods) }
    IN addr \cup ports \cup ids

\* perturbed direct replies; these necessarily come from the target address unless the responder is the perturbation
DirectPerts(v) ==
    CASE v \in {"icmp4", "icmp6"} ->
            { Pert("eid+1", "echo", [eid |-> 1], NoMods), Pert("eid+256", "echo", [eid |-> 256], NoMods),
              Pert("eseq+256", "echo", [eseq |-> 256], NoMods), Pert("eseq+32768", "echo", [eseq |-> 32768], NoMods),
              Pert("echo_from_foreign", "echo", NoMods, [from |-> Foreign(v, 77)]) }
      [] v \in {"tcp", "tcp_paris"} ->
            { Pert("synack_sport+1", "synack", [sport |-> 1], NoMods), Pert("synack_dport+1", "synack", [dport |-> 1], NoMods),
              Pert("synack_ack+1", "synack", [ack |-> 1], NoMods), Pert("synack_ack+65536", "synack", [ack |-> 65536], NoMods),
              Pert("rstack_ack+256", "rstack", [ack |-> 256], NoMods),
              Pert("synack_from_foreign", "synack", NoMods, [from |-> Foreign(v, 77)]),
              Pert("rst_from_foreign", "rst", NoMods, [from |-> Foreign(v, 77)]),
              Pert("rst_dport+1", "rst", [dport |-> 1], NoMods),
              Pert("synack_to_other", "synack", NoMods, [o_dst |-> OtherLocal(v)]) }
      [] v = "sack" ->
            { Pert("sack_left+256", "sack", [sack_left |-> 256], NoMods), Pert("sack_left+65536", "sack", [sack_left |-> 65536], NoMods),
              Pert("sack_left-300", "sack", [sack_left |-> -300], NoMods),
              Pert("sack_sport+1", "sack", [sport |-> 1], NoMods), Pert("sack_dport+1", "sack", [dport |-> 1], NoMods),
              Pert("sack_from_foreign", "sack", NoMods, [from |-> Foreign(v, 77)]) }
      [] OTHER -> {}

\* a C01 scenario: routers at 1,2 answer, TTL 3 silent, destination at 4 (or never); the packet under test is about TTL 3
C01Scen(v, strict, b, pt, instant, rng) ==
    LET mn == rng[1]  mx == rng[2]  vt == mn + 2
        from == IF "from" \in DOMAIN pt.mods_s THEN pt.mods_s.from ELSE IF pt.form = "te" THEN Foreign(v, 200) ELSE "TARGET"
        inj == [at_us |-> IF instant = "early" THEN 1000 ELSE 150000, for_ttl |-> IF instant = "unsent" THEN mx ELSE vt,
                form |-> pt.form, from |-> from, mods_d |-> pt.mods_d,
                mods_s |-> [k \in (DOMAIN pt.mods_s) \ {"from"} |-> pt.mods_s[k]], tag |-> pt.label]
    IN Common(v, strict, b, mn, mx) @@
       [id |-> "C01/" \o v \o "/" \o (IF strict THEN "strict" ELSE "relaxed") \o "/" \o b.name \o "/" \o ToString(mn) \o "/" \o pt.label \o "/" \o instant,
        label |-> v \o "/" \o pt.label \o "/" \o instant,
        path |-> Background(v, mn, mx, 0, {vt}), inject |-> <<inj>>]

Genuine(v) == {Pert("genuine_te", "te", NoMods, NoMods)} \cup {Pert("genuine_" \o f, f, NoMods, NoMods) : f \in DestForms(v)}

TTLRanges == {<<1, 4>>, <<2, 5>>, <<252, 255>>}

\* TLC cannot quantify a dependent product in one comprehension: build it as a union
C01All ==
    UNION { UNION { UNION {
        { C01Scen(v, s, b, pt, "after", <<1, 4>>) : pt \in QuotePerts(v) \cup DirectPerts(v) } \cup
        \* (b) a genuine reply for a TTL that has not been probed yet / delivered before its probe
        { C01Scen(v, s, b, pt, "unsent", <<1, 4>>) : pt \in Genuine(v) } \cup
        { C01Scen(v, s, b, pt, "early", <<1, 4>>) : pt \in {x \in Genuine(v) : x.form = "te"} }
      : b \in Bases } : s \in StrictOpts(v) } : v \in Variants }
    \cup
    \* (c) other TTL ranges (mid base only)
    UNION { UNION {
        { C01Scen(v, s, BaseMid, pt, "after", r) : pt \in QuotePerts(v) \cup DirectPerts(v), r \in TTLRanges \ {<<1, 4>>} }
      : s \in StrictOpts(v) } : v \in Variants }
    \cup
    \* (d) the tool's own outgoing probes looped back to the capture handles
    { Common(v, TRUE, b, 1, 4) @@ [id |-> "C01/" \o v \o "/loop/" \o b.name, label |-> v \o "/own_probes", loop |-> TRUE,
                                   path |-> Background(v, 1, 4, 4, {2})] : v \in Variants, b \in Bases }

---------------------------------------------------------------------------
Cases == CASE Gen = "C01" -> C01All
           [] OTHER -> {}

Picked == IF NMax > 0 /\ Cardinality(Cases) > NMax THEN RandomSubset(NMax, Cases) ELSE Cases

ASSUME /\ ndJsonSerialize(IOEnv.VT_OUT, SetToSeq(Picked))
       /\ PrintT(<<"GEN", Gen, Cardinality(Cases), Cardinality(Picked)>>)

VARIABLE x
Init == x = 0
Next == UNCHANGED x
=============================================================================
