------------------------------- MODULE GenRun -------------------------------
(***************************************************************************)
(* Scenario generator for the request level: traceroute.RunTraceroute and  *)
(* the HTTP handler (N runs + M end-to-end probes + public-IP fetch, TCP   *)
(* method policy, parameter lattice), over one shared simulated wire.      *)
(***************************************************************************)
EXTENDS Params, Json, IOUtils, Randomization, SequencesExt

Gen  == IOEnv.VT_GEN
Tier == IOEnv.VT_TIER
NMax == atoi(IOEnv.VT_N)

PathOf(f) == [s \in {ToString(i) : i \in DOMAIN f} |-> f[CHOOSE i \in DOMAIN f : ToString(i) = s]]
R4(t) == "10." \o ToString(t) \o ".0.1"
R6(t) == "fd00::" \o ToString(t)
DestFormOf(proto, method) == CASE proto = "icmp" -> "echo" [] proto = "udp" -> "du_port" [] method \in {"sack", "prefer_sack"} -> "sack" [] OTHER -> "synack"

\* a path: routers answer up to dt-1, the destination from dt on in the forms of ALL tcp methods (so that SYN e2e probes
\* and SACK runs of one request both find their destination)
PathFor(proto, v6, mn, mx, dt, d0) ==
    PathOf([t \in mn..mx |->
        IF dt # 0 /\ t >= dt
        THEN (IF proto = "tcp" THEN <<[form |-> "sack", delay_us |-> d0 + 5000], [form |-> "synack", delay_us |-> d0 + 5000]>>
              ELSE <<[form |-> DestFormOf(proto, ""), delay_us |-> d0 + 5000]>>)
        ELSE <<[form |-> "te", from |-> IF v6 THEN R6(t) ELSE R4(t), delay_us |-> d0 + 1000 * t]>>])

Run(proto, method, v6, mn, mx, q, e) ==
    [hostname |-> IF v6 THEN T6 ELSE T4, port |-> IF proto = "tcp" THEN 443 ELSE 0, protocol |-> proto, tcp_method |-> method, want_v6 |-> v6,
     min_ttl |-> mn, max_ttl |-> mx, delay_ms |-> 20, timeout_ms |-> 300, queries |-> q, e2e |-> e,
     listen_port |-> IF proto = "tcp" /\ method \in {"sack", "prefer_sack"} THEN 443 ELSE 0,
     reverse_dns |-> FALSE, public_ip |-> FALSE, pub_mode |-> "ok", skip_private |-> FALSE, paris |-> FALSE, via |-> "lib", query |-> ""]

Protos == { <<"icmp", "", FALSE>>, <<"icmp", "", TRUE>>, <<"udp", "", FALSE>>, <<"udp", "", TRUE>>,
            <<"tcp", "syn", FALSE>>, <<"tcp", "sack", FALSE>>, <<"tcp", "prefer_sack", FALSE>> }

---------------------------------------------------------------------------
(* C15: all-or-error with exact counts: every subset of failing runs/probes, completion orders via per-flow delays *)
FaultSets(n) == {<<>>} \cup { <<[op |-> "write", k |-> 1, class |-> "fatal", run |-> r]>> : r \in 1..n }
                \cup { <<[op |-> "read", k |-> 2, class |-> "fatal", run |-> r]>> : r \in 1..n }
                \cup (IF n >= 3 THEN { <<[op |-> "write", k |-> 2, class |-> "fatal", run |-> 1], [op |-> "newsource", k |-> 1, class |-> "fatal", run |-> 3]>>,
                                       <<[op |-> "setfilter", k |-> 1, class |-> "fatal", run |-> 2], [op |-> "read", k |-> 1, class |-> "zero", run |-> n]>> }
                      ELSE {})
Orders == { <<0, 0, 0, 0, 0, 0, 0, 0>>, <<40000, 0, 20000, 0, 0, 30000, 0, 0>>, <<0, 70000, 0, 10000, 50000, 0, 0, 20000>> }
C15Scen(pr, q, e, fs, ord, pub) ==
    [id |-> "C15/" \o pr[1] \o pr[2] \o (IF pr[3] THEN "6" ELSE "4") \o "/" \o ToString(q) \o "-" \o ToString(e) \o "/f" \o ToJson(fs) \o "/o" \o ToString(ord[1] + ord[2]) \o "/" \o pub,
     label |-> pr[1] \o "/" \o pr[2] \o "/q" \o ToString(q) \o "e" \o ToString(e) \o "/faults" \o ToString(Len(fs)) \o "/" \o pub,
     kind |-> "run", per_flow |-> TRUE, sack_perm |-> TRUE, isn32 |-> <<4660, 1>>,
     run |-> [Run(pr[1], pr[2], pr[3], 1, 4, q, e) EXCEPT !.public_ip = (pub # "none"), !.pub_mode = IF pub = "none" THEN "ok" ELSE pub],
     faults |-> fs, flow_delay_us |-> ord, path |-> PathFor(pr[1], pr[3], 1, 4, 3, 0)]
C15All(u) == { C15Scen(pr, qe[1], qe[2], fs, ord, pub) :
                 pr \in Protos, qe \in {<<1, 0>>, <<3, 0>>, <<0, 2>>, <<2, 3>>, <<3, 1>>}, fs \in FaultSets(4), ord \in Orders, pub \in {"none", "ok", "fail"} }

---------------------------------------------------------------------------
(* C19: the parameter lattice.  Params.tla in one place: what a parameter set MEANS - rejected, or executed as      *)
(* (ttl range, address, port, probe kind).                                                                         *)
C19Scen(pr, mn, mx, port, host, lbl) ==
    LET ex == Expect(pr[1], pr[2], mn, mx, port, host) IN
    [id |-> "C19/" \o pr[1] \o pr[2] \o "/" \o ToString(mn) \o "-" \o ToString(mx) \o "/" \o ToString(port) \o "/" \o host \o "/" \o lbl,
     label |-> pr[1] \o pr[2] \o "/" \o lbl \o "/ttl" \o ToString(mn) \o "-" \o ToString(mx) \o "/port" \o ToString(port) \o (IF lbl = "host" THEN "/" \o host ELSE ""),
     kind |-> "run", per_flow |-> TRUE, sack_perm |-> TRUE, isn32 |-> <<4660, 1>>, extra |-> [expect |-> ex],
     run |-> [Run(pr[1], pr[2], pr[3], mn, mx, 1, 0) EXCEPT !.port = port, !.hostname = host, !.timeout_ms = 120, !.delay_ms = 1,
                                                             !.listen_port = IF ex.kind = "sack" /\ ~ex.reject THEN ex.port ELSE 0],
     path |-> PathOf([t \in {1} |-> <<>>])]
\* the same lattice through the HTTP API (min TTL is fixed to 1 there; delay 50 ms; non-numeric values fall back to defaults)
C19Http(pr, mx, port, host) ==
    LET ex == Expect(pr[1], pr[2], 1, mx, port, host) IN
    [id |-> "C19/http/" \o pr[1] \o pr[2] \o "/" \o ToString(mx) \o "/" \o ToString(port) \o "/" \o host,
     label |-> "http/" \o pr[1] \o pr[2] \o "/ttl1-" \o ToString(mx) \o "/port" \o ToString(port) \o "/" \o host,
     kind |-> "run", per_flow |-> TRUE, sack_perm |-> TRUE, isn32 |-> <<4660, 1>>, extra |-> [expect |-> ex],
     run |-> [Run(pr[1], pr[2], pr[3], 1, mx, 1, 0) EXCEPT !.port = port, !.hostname = host, !.timeout_ms = 120, !.delay_ms = 50, !.via = "http",
                !.listen_port = IF ex.kind = "sack" /\ ~ex.reject THEN ex.port ELSE 0,
                !.query = "target=" \o host \o "&protocol=" \o pr[1] \o "&tcp-method=" \o pr[2] \o "&port=" \o ToString(port) \o "&max-ttl=" \o ToString(mx)
                          \o "&timeout=120&traceroute-queries=1&e2e-queries=0" \o (IF pr[3] THEN "&ipv6=true" ELSE "")],
     path |-> PathOf([t \in {1} |-> <<>>])]
TTLPairs == { <<a, b>> \in TTLVals \X TTLVals : a \in {-1, 0, 1, 2, 255, 256, 257, 300} \/ b \in {255, 256, 257, 300, 511, 65537, 0, -1} }
C19All(u) ==
    { C19Scen(pr, p[1], p[2], 443, IF pr[3] THEN T6 ELSE T4, "ttl") : pr \in Protos, p \in TTLPairs }
    \cup { C19Scen(pr, 1, 3, port, IF pr[3] THEN T6 ELSE T4, "port") : pr \in Protos, port \in PortVals }
    \cup { C19Scen(<<p, m, FALSE>>, 1, 3, 443, T4, "proto") : p \in {"udp", "tcp", "icmp", "UDP", "TCP", "", "sctp"}, m \in {"", "syn", "sack", "prefer_sack", "syn_socket", "SYN", "x"} }
    \cup { C19Http(pr, mx, 443, IF pr[3] THEN T6 ELSE T4) : pr \in Protos, mx \in TTLVals }
    \cup { C19Http(pr, 3, port, IF pr[3] THEN T6 ELSE T4) : pr \in Protos, port \in PortVals }
    \cup { C19Http(<<pp, m, FALSE>>, 3, 443, T4) : pp \in {"udp", "tcp", "icmp", "UDP", "sctp"}, m \in {"syn", "sack", "prefer_sack", "syn_socket", "x"} }
    \cup { C19Http(pr, 3, 33434, hr.h) : pr \in {<<"udp", "", FALSE>>, <<"icmp", "", FALSE>>}, hr \in {r \in HostTable : r.h # ""} }
    \cup { C19Scen(pr, 1, 3, 0, hr.h, "host") : pr \in {<<"udp", "", FALSE>>, <<"tcp", "syn", FALSE>>, <<"icmp", "", FALSE>>}, hr \in HostTable }

---------------------------------------------------------------------------
Cases == CASE Gen = "C15" -> C15All(0)
           [] Gen = "C19" -> C19All(0)
           [] OTHER -> {}

ASSUME LET c == Cases
           pk == IF NMax > 0 /\ Cardinality(c) > NMax THEN RandomSubset(NMax, c) ELSE c
       IN /\ ndJsonSerialize(IOEnv.VT_OUT, SetToSeq(pk))
          /\ PrintT(<<"GEN", Gen, Cardinality(c), Cardinality(pk)>>)
VARIABLE gx
GInit == gx = 0 /\ prm = 0 /\ dec = 0
GNext == UNCHANGED <<gx, prm, dec>>
=============================================================================
