------------------------------- MODULE GenRun -------------------------------
(***************************************************************************)
(* Scenario generator for the request level: traceroute.RunTraceroute and  *)
(* the HTTP handler (N runs + M end-to-end probes + public-IP fetch, TCP   *)
(* method policy, parameter lattice), over one shared simulated wire.      *)
(***************************************************************************)
EXTENDS Params, Json, IOUtils, Randomization, SequencesExt

VARIABLE gx
Gen  == IOEnv.VT_GEN
Tier == IOEnv.VT_TIER
NMax == atoi(IOEnv.VT_N)

PathOf(f) == [s \in {ToString(i) : i \in DOMAIN f} |-> f[CHOOSE i \in DOMAIN f : ToString(i) = s]]
R4(t) == "10." \o ToString(t) \o ".0.1"
R6(t) == "fd00::" \o ToString(t)
DestFormOf(proto, method) == CASE proto = "icmp" -> "echo" [] proto = "udp" -> "du_port" [] method \in {"sack", "prefer_sack"} -> "sack" [] OTHER -> "synack"

\* a path: routers answer up to dt-1, the destination from dt on in the forms of ALL tcp methods (so that SYN e2e probes
\* and SACK runs of one request both find their destination)
PathFor(proto, v6, mn, mx, dt, d0) ==
    PathOf([t \in mn..mx |->
        IF dt # 0 /\ t >= dt
        THEN (IF proto = "tcp" THEN <<[form |-> "sack", delay_us |-> d0 + 5000], [form |-> "synack", delay_us |-> d0 + 5000]>>
              ELSE <<[form |-> DestFormOf(proto, ""), delay_us |-> d0 + 5000]>>)
        ELSE <<[form |-> "te", from |-> IF v6 THEN R6(t) ELSE R4(t), delay_us |-> d0 + 1000 * t]>>])

Run(proto, method, v6, mn, mx, q, e) ==
    [hostname |-> IF v6 THEN T6 ELSE T4, port |-> IF proto = "tcp" THEN 443 ELSE 0, protocol |-> proto, tcp_method |-> method, want_v6 |-> v6,
     min_ttl |-> mn, max_ttl |-> mx, delay_ms |-> 20, timeout_ms |-> 300, queries |-> q, e2e |-> e,
     listen_port |-> IF proto = "tcp" /\ method \in {"sack", "prefer_sack"} THEN 443 ELSE 0,
     reverse_dns |-> FALSE, public_ip |-> FALSE, pub_mode |-> "ok", skip_private |-> FALSE, paris |-> FALSE, via |-> "lib", query |-> "",
     dns |-> [x \in {} |-> ""], http_method |-> "", http_path |-> "", broken_writer |-> 0, start_delay_us |-> 0, tcp_block |-> ""]

Protos == { <<"icmp", "", FALSE>>, <<"icmp", "", TRUE>>, <<"udp", "", FALSE>>, <<"udp", "", TRUE>>,
            <<"tcp", "syn", FALSE>>, <<"tcp", "sack", FALSE>>, <<"tcp", "prefer_sack", FALSE>> }

---------------------------------------------------------------------------
(* C15: all-or-error with exact counts: every subset of failing runs/probes, completion orders via per-flow delays *)
FaultSets(n) == {<<>>} \cup { <<[op |-> "write", k |-> 1, class |-> "fatal", run |-> r]>> : r \in 1..n }
                \cup { <<[op |-> "read", k |-> 2, class |-> "fatal", run |-> r]>> : r \in 1..n }
                \* a failed write whose cause has the type the drivers use for "no packet yet" is still a failed write
                \cup { <<[op |-> "write", k |-> 1, class |-> "typed", run |-> r]>> : r \in 1..n }
                \cup (IF n >= 3 THEN { <<[op |-> "write", k |-> 2, class |-> "fatal", run |-> 1], [op |-> "newsource", k |-> 1, class |-> "fatal", run |-> 3]>>,
                                       <<[op |-> "setfilter", k |-> 1, class |-> "fatal", run |-> 2], [op |-> "read", k |-> 1, class |-> "zero", run |-> n]>> }
                      ELSE {})
Orders1 == <<0, 0, 0, 0, 0, 0, 0, 0>>
Orders == { <<0, 0, 0, 0, 0, 0, 0, 0>>, <<40000, 0, 20000, 0, 0, 30000, 0, 0>>, <<0, 70000, 0, 10000, 50000, 0, 0, 20000>> }
C15Scen(pr, q, e, fs, ord, pub) ==
    [id |-> "C15/" \o pr[1] \o pr[2] \o (IF pr[3] THEN "6" ELSE "4") \o "/" \o ToString(q) \o "-" \o ToString(e) \o "/f" \o ToJson(fs) \o "/o" \o ToString(ord[1] + ord[2]) \o "/" \o pub,
     label |-> pr[1] \o "/" \o pr[2] \o "/q" \o ToString(q) \o "e" \o ToString(e) \o "/faults" \o ToString(Len(fs)) \o "/" \o pub,
     kind |-> "run", per_flow |-> TRUE, sack_perm |-> TRUE, isn32 |-> <<4660, 1>>,
     run |-> [Run(pr[1], pr[2], pr[3], 1, 4, q, e) EXCEPT !.public_ip = (pub # "none"), !.pub_mode = IF pub = "none" THEN "ok" ELSE pub],
     faults |-> fs, flow_delay_us |-> ord, path |-> PathFor(pr[1], pr[3], 1, 4, 3, 0)]
\* cancellation while the caller is pacing the end-to-end probes (udp/tcp runs do not look at the context themselves)
C15Cancel(pr, e, c) ==
    [id |-> "C15/cancel/" \o pr[1] \o pr[2] \o (IF pr[3] THEN "6" ELSE "4") \o "/e" \o ToString(e) \o "/" \o ToString(c), label |-> pr[1] \o pr[2] \o "/cancel_during_e2e_pacing",
     kind |-> "run", per_flow |-> TRUE, sack_perm |-> TRUE, isn32 |-> <<4660, 1>>, cancel_us |-> c,
     run |-> Run(pr[1], pr[2], pr[3], 1, 4, 1, e), path |-> PathFor(pr[1], pr[3], 1, 4, 3, 0)]
\* the caller's context has a DEADLINE that passes while an end-to-end probe of an ICMP request is on its way (the ICMP entry point
\* takes the caller's context): that probe failed, so the request fails - a timeout-typed failure is a failure like any other
C15Deadline(pr, e, c) ==
    [C15Cancel(pr, e, c) EXCEPT !.id = "C15/deadline/" \o pr[1] \o (IF pr[3] THEN "6" ELSE "4") \o "/e" \o ToString(e) \o "/" \o ToString(c),
                                !.label = pr[1] \o "/caller_deadline_during_e2e_pacing"] @@ [extra |-> [deadline |-> TRUE]]
\* more failures than a log line is long: every single one is still exposed
C15Many(pr) ==
    [C15Scen(pr, 4, 8, <<>>, Orders1, "none") EXCEPT !.id = "C15/many/" \o pr[1] \o pr[2], !.label = pr[1] \o "/" \o pr[2] \o "/twelve_failures",
        !.faults = [r \in 1..12 |-> [op |-> "write", k |-> 1, class |-> "fatal", run |-> r]]]
\* 120 failing queries through the HTTP API: the text of the error answer (all a client gets) still names every single one
C15ManyHttp(pr) ==
    [C15Scen(pr, 60, 60, <<>>, Orders1, "none") EXCEPT !.id = "C15/many/http/" \o pr[1] \o pr[2], !.label = "http/" \o pr[1] \o "/" \o pr[2] \o "/120_failures",
        !.faults = [r \in 1..120 |-> [op |-> "write", k |-> 1, class |-> "fatal", run |-> r]], !.run.via = "http",
        !.run.query = "target=" \o T4 \o "&protocol=" \o pr[1] \o "&tcp-method=" \o pr[2] \o "&port=443&max-ttl=4&timeout=300&traceroute-queries=60&e2e-queries=60"]
\* the same counts through the HTTP API, zero included (traceroute-only and e2e-only requests)
C15Http(pr, q, e) ==
    [C15Scen(pr, q, e, <<>>, Orders1, "none") EXCEPT !.id = "C15/http/" \o pr[1] \o pr[2] \o "/" \o ToString(q) \o "-" \o ToString(e), !.label = "http/" \o pr[1] \o "/q" \o ToString(q) \o "e" \o ToString(e),
        !.run.via = "http",
        !.run.query = "target=" \o T4 \o "&protocol=" \o pr[1] \o "&tcp-method=" \o pr[2] \o "&port=443&max-ttl=4&timeout=300&traceroute-queries=" \o ToString(q) \o "&e2e-queries=" \o ToString(e)]
\* C14: three concurrent runs over a TTL range beyond the default 30 towards a silent target (every probe up to the last TTL is
\* built and sent): per-run buffers only
C14Long(pr, mx) ==
    [C15Scen(pr, 3, 0, <<>>, Orders1, "none") EXCEPT !.id = "C14/long/" \o pr[1] \o pr[2] \o (IF pr[3] THEN "6" ELSE "4") \o "/" \o ToString(mx),
        !.label = "request/" \o pr[1] \o (IF pr[3] THEN "6" ELSE "4") \o "/ttl_range_beyond_default/silent_target",
        !.run.max_ttl = mx, !.path = PathOf([t \in {1} |-> <<>>])]
C14LongAll == { C14Long(pr, mx) : pr \in Protos, mx \in {40, 64} }
C15All(u) == C14LongAll \cup { C15Deadline(pr, 3, c) : pr \in {<<"icmp", "", FALSE>>, <<"icmp", "", TRUE>>}, c \in {537, 900037} } \cup { C15Http(pr, qe[1], qe[2]) : pr \in {<<"udp", "", FALSE>>, <<"tcp", "syn", FALSE>>}, qe \in {<<1, 0>>, <<0, 1>>, <<0, 2>>, <<2, 1>>} }
             \* counts beyond one byte
             \cup { C15Http(<<"udp", "", FALSE>>, 0, 260) } \cup { C15Many(pr) : pr \in {<<"udp", "", FALSE>>, <<"icmp", "", FALSE>>} } \cup { C15ManyHttp(pr) : pr \in {<<"udp", "", FALSE>>, <<"icmp", "", FALSE>>} } \cup { C15Cancel(pr, e, c) : pr \in {<<"udp", "", FALSE>>, <<"tcp", "syn", FALSE>>, <<"udp", "", TRUE>>}, e \in {2, 4}, c \in {100000, 450000} } \cup { C15Scen(pr, qe[1], qe[2], fs, ord, pub) :
                 pr \in Protos, qe \in {<<1, 0>>, <<3, 0>>, <<0, 2>>, <<2, 3>>, <<3, 1>>}, fs \in FaultSets(4), ord \in Orders, pub \in {"none", "ok", "fail"} }

---------------------------------------------------------------------------
(* C19: the parameter lattice.  Params.tla in one place: what a parameter set MEANS - rejected, or executed as      *)
(* (ttl range, address, port, probe kind).                                                                         *)
C19Scen(pr, mn, mx, port, host, lbl) ==
    LET ex == ExpectW(pr[1], pr[2], mn, mx, port, host, pr[3]) IN
    [id |-> "C19/" \o pr[1] \o pr[2] \o (IF IsName(host) /\ pr[3] THEN "6" ELSE "") \o "/" \o ToString(mn) \o "-" \o ToString(mx) \o "/" \o ToString(port) \o "/" \o host \o "/" \o lbl,
     label |-> pr[1] \o pr[2] \o "/" \o lbl \o "/ttl" \o ToString(mn) \o "-" \o ToString(mx) \o "/port" \o ToString(port) \o (IF lbl = "host" THEN "/" \o host ELSE ""),
     kind |-> "run", per_flow |-> TRUE, sack_perm |-> TRUE, isn32 |-> <<4660, 1>>, extra |-> [expect |-> ex],
     run |-> [Run(pr[1], pr[2], pr[3], mn, mx, 1, 0) EXCEPT !.port = port, !.hostname = host, !.timeout_ms = 120, !.delay_ms = 1,
                                                             !.listen_port = IF ex.kind = "sack" /\ ~ex.reject THEN ex.port ELSE 0],
     path |-> PathOf([t \in {1} |-> <<>>])]
\* the same lattice through the HTTP API (min TTL is fixed to 1 there; delay 50 ms; non-numeric values fall back to defaults)
C19Http(pr, mx, port, host) ==
    LET ex == ExpectW(pr[1], pr[2], 1, mx, port, host, pr[3]) IN
    [id |-> "C19/http/" \o pr[1] \o pr[2] \o (IF IsName(host) /\ pr[3] THEN "6" ELSE "") \o "/" \o ToString(mx) \o "/" \o ToString(port) \o "/" \o host,
     label |-> "http/" \o pr[1] \o pr[2] \o "/ttl1-" \o ToString(mx) \o "/port" \o ToString(port) \o "/" \o host,
     kind |-> "run", per_flow |-> TRUE, sack_perm |-> TRUE, isn32 |-> <<4660, 1>>, extra |-> [expect |-> ex],
     run |-> [Run(pr[1], pr[2], pr[3], 1, mx, 1, 0) EXCEPT !.port = port, !.hostname = host, !.timeout_ms = 120, !.delay_ms = 50, !.via = "http",
                !.listen_port = IF ex.kind = "sack" /\ ~ex.reject THEN ex.port ELSE 0,
                !.query = "target=" \o host \o "&protocol=" \o pr[1] \o "&tcp-method=" \o pr[2] \o "&port=" \o ToString(port) \o "&max-ttl=" \o ToString(mx)
                          \o "&timeout=120&traceroute-queries=1&e2e-queries=0" \o (IF pr[3] THEN "&ipv6=true" ELSE "")],
     path |-> PathOf([t \in {1} |-> <<>>])]
\* tcp-method sack against a target that cannot do SACK (closed port / no SACK-permitted in the handshake): the method cannot be
\* honoured, so the request is REJECTED - never carried out with another kind of probe
C19NoSack(cap, via) ==
    LET base == IF via = "http" THEN C19Http(<<"tcp", "sack", FALSE>>, 3, 443, T4) ELSE C19Scen(<<"tcp", "sack", FALSE>>, 1, 3, 443, T4, "proto") IN
    [base EXCEPT !.id = @ \o "/forced_sack/" \o cap, !.label = via \o "/tcpsack/forced_sack_unavailable/" \o cap,
                 !.sack_perm = (cap # "no_sackperm"), !.run.listen_port = IF cap = "port_closed" THEN 0 ELSE 443, !.extra.expect.reject = TRUE]
\* zero-padded decimal numbers in the HTTP query are decimal numbers (strconv.Atoi): port=040000 is port 40000, max-ttl=010 is 10
C19HttpPadded(pr) ==
    [C19Http(pr, 10, 40000, T4) EXCEPT !.id = @ \o "/zero_padded", !.label = "http/" \o pr[1] \o pr[2] \o "/zero_padded_numbers",
        !.run.query = "target=" \o T4 \o "&protocol=" \o pr[1] \o "&tcp-method=" \o pr[2] \o "&port=040000&max-ttl=010&timeout=0120&traceroute-queries=01&e2e-queries=00"]
TTLPairs == { <<a, b>> \in TTLVals \X TTLVals : a \in {-1, 0, 1, 2, 255, 256, 257, 300} \/ b \in {255, 256, 257, 300, 511, 65537, 0, -1} }
C19All(u) ==
    { C19HttpPadded(pr) : pr \in {<<"udp", "", FALSE>>, <<"tcp", "syn", FALSE>>, <<"icmp", "", FALSE>>} } \cup
    { C19NoSack(cap, via) : cap \in {"port_closed", "no_sackperm"}, via \in {"lib", "http"} } \cup
    { C19Scen(pr, p[1], p[2], 443, IF pr[3] THEN T6 ELSE T4, "ttl") : pr \in Protos, p \in TTLPairs }
    \cup { C19Scen(pr, 1, 3, port, IF pr[3] THEN T6 ELSE T4, "port") : pr \in Protos, port \in PortVals }
    \cup { C19Scen(<<p, m, FALSE>>, 1, 3, 443, T4, "proto") : p \in {"udp", "tcp", "icmp", "UDP", "TCP", "", "sctp"}, m \in {"", "syn", "sack", "prefer_sack", "syn_socket", "SYN", "x"} }
    \cup { C19Http(pr, mx, 443, IF pr[3] THEN T6 ELSE T4) : pr \in Protos, mx \in TTLVals }
    \cup { C19Http(pr, 3, port, IF pr[3] THEN T6 ELSE T4) : pr \in Protos, port \in PortVals }
    \cup { C19Http(<<pp, m, FALSE>>, 3, 443, T4) : pp \in {"udp", "tcp", "icmp", "UDP", "sctp"}, m \in {"syn", "sack", "prefer_sack", "syn_socket", "x"} }
    \cup { C19Http(pr, 3, 33434, hr.h) : pr \in {<<"udp", "", FALSE>>, <<"icmp", "", FALSE>>}, hr \in {r \in HostTable : r.h # ""} }
    \cup { C19Scen(pr, 1, 3, 0, hr.h, "host") : pr \in {<<"udp", "", FALSE>>, <<"tcp", "syn", FALSE>>, <<"icmp", "", FALSE>>}, hr \in HostTable \cup Unroutable }
    \cup { C19Http(pr, 3, 33434, hr.h) : pr \in {<<"udp", "", FALSE>>, <<"icmp", "", FALSE>>}, hr \in Unroutable }
    \* a delay of 0 between probes (the zero value of the library's parameter struct) is an accepted value
    \cup { [C19Scen(pr, 1, 3, 443, IF pr[3] THEN T6 ELSE T4, "delay0") EXCEPT !.run.delay_ms = 0] : pr \in Protos }
    \* host names: resolution picks the address of the requested family (ipv6 flag), or the request is rejected
    \cup { C19Scen(<<p, "", w6>>, 1, 3, 0, nr.h, "host") : p \in {"udp", "icmp"}, w6 \in BOOLEAN, nr \in NameTable }
    \cup { C19Scen(<<"tcp", "syn", w6>>, 1, 3, 443, nr.h, "host") : w6 \in BOOLEAN, nr \in NameTable }
    \cup { C19Http(<<p, "", w6>>, 3, 33434, nr.h) : p \in {"udp", "icmp"}, w6 \in BOOLEAN, nr \in NameTable }
    \* the protocol / method lattice again for requests that consist of end-to-end probes only, or of both kinds
    \cup { [C19Scen(<<p, m, FALSE>>, 1, 3, 443, T4, "proto") EXCEPT !.id = @ \o "/q" \o ToString(qe[1]) \o "e" \o ToString(qe[2]), !.label = @ \o "/q" \o ToString(qe[1]) \o "e" \o ToString(qe[2]),
                                                                     !.run.queries = qe[1], !.run.e2e = qe[2]]
            : p \in {"udp", "tcp", "icmp", "sctp"}, m \in {"", "syn", "sack", "prefer_sack", "syn_socket", "SYN", "x"}, qe \in {<<0, 1>>, <<0, 2>>, <<1, 1>>} }

---------------------------------------------------------------------------
(* C20: TCP method x target capability x injected failure; the expectation is TcpPolicy!Code *)
TP == INSTANCE TcpPolicy WITH c <- gx, dec <- gx
C20Scen(m, cap, f, e) ==
    LET ex == TP!Code(m, cap, f)
        destReplies == <<[form |-> IF cap = "ack_nosack" THEN "ack_nosack" ELSE "sack", delay_us |-> 5000], [form |-> "synack", delay_us |-> 5000]>>
        fl == CASE f = "filter1" -> <<[op |-> "setfilter", k |-> 1, class |-> "fatal", run |-> 0]>>
                [] f = "filter2" -> <<[op |-> "setfilter", k |-> 2, class |-> "fatal", run |-> 0]>>
                [] f = "write1" -> <<[op |-> "write", k |-> 1, class |-> "fatal", run |-> 0]>>
                [] f = "read_fatal" -> <<[op |-> "read", k |-> 1, class |-> "fatal", run |-> 0]>>
                [] OTHER -> <<>>
    IN [id |-> "C20/" \o m \o "/" \o cap \o "/" \o f \o "/e" \o ToString(e), label |-> m \o "/" \o cap \o "/" \o f \o (IF e > 0 THEN "/e2e" ELSE ""),
        kind |-> "run", per_flow |-> TRUE, isn32 |-> <<65535, 65400>>,
        sack_perm |-> (cap # "no_sackperm"), sack_ts |-> (cap = "sack_ok_ts"), no_synack |-> (cap = "no_synack"),
        extra |-> [expect20 |-> ex @@ [method |-> m, cap |-> cap, fault |-> f]],
        faults |-> fl,
        run |-> [Run("tcp", m, FALSE, 1, 4, 1, e) EXCEPT !.listen_port = IF cap \in {"port_closed", "unreachable"} THEN 0 ELSE 443,
                                                          !.tcp_block = IF cap = "unreachable" THEN "reject" ELSE IF cap = "addr_mismatch" THEN "src2" ELSE IF cap = "udp_refused" THEN "noudp" ELSE ""],
        path |-> PathOf([t \in 1..4 |-> IF t >= 3 THEN destReplies ELSE <<[form |-> "te", from |-> R4(t), delay_us |-> 1000 * t]>>])]
\* the caller's context is cancelled before / while the SACK path connects: a cancellation is not "SACK unavailable" - the request
\* ends as the policy says or with an error, but never with a SYN trace for a target that supports SACK
C20Cancel(m, cap, c) ==
    [C20Scen(m, cap, "none", 0) EXCEPT !.id = @ \o "/cancel" \o ToString(c), !.label = @ \o "/cancelled", !.extra = @ @@ [cancel_at_start |-> (c = 0)]]
    @@ [cancel_us |-> c]
\* the target's own time-exceeded (a destination reply for SACK) is read BEFORE its acknowledgement without SACK blocks: still unavailable
C20TeFirst(m) ==
    [C20Scen(m, "ack_nosack", "none", 0) EXCEPT !.id = @ \o "/te_from_target_first", !.label = @ \o "/te_from_target_first",
        !.path = PathOf([t \in 1..4 |-> <<[form |-> "te", from |-> "TARGET", delay_us |-> 500],
                                             [form |-> "ack_nosack", delay_us |-> 9000], [form |-> "synack", delay_us |-> 9000]>>])]
\* the destination lies beyond the last TTL: a SACK-capable target still gets a SACK trace (no destination hop is not "unavailable")
C20Short(m) ==
    [C20Scen(m, "sack_ok", "none", 0) EXCEPT !.id = @ \o "/dest_beyond_max_ttl", !.label = @ \o "/dest_beyond_max_ttl",
        !.path = PathOf([t \in 1..4 |-> <<[form |-> "te", from |-> R4(t), delay_us |-> 1000 * t]>>])]
C20All(u) == { C20Short(m) : m \in TP!Methods } \cup { C20TeFirst(m) : m \in TP!Methods } \cup { C20Scen(m, cap, f, 0) : m \in TP!Methods, cap \in TP!Caps, f \in TP!Faults }
             \cup { C20Cancel(m, cap, c) : m \in TP!Methods, cap \in TP!Caps, c \in {0, 1, 2500} }
             \cup { C20Scen(m, cap, "none", 2) : m \in TP!Methods, cap \in TP!Caps }

---------------------------------------------------------------------------
(* C11: concurrent traceroutes over one wire: one request's 3 runs + e2e probes, and mixes of concurrent requests of *)
(* different protocols to the same target; allocator bases near wrap-around; reply interleavings via per-flow delays *)
WrapBases == { [ipid |-> 65300, echo |-> 65533, seq |-> <<65535, 65500>>, name |-> "wrap"], [ipid |-> 41821, echo |-> 7, seq |-> <<1, 1>>, name |-> "mid"] }
\* every protocol's destination forms at the destination hop, so that any mix of flows finds its proof of arrival
MixPath(v6, mn, mx, dt) ==
    PathOf([t \in mn..mx |->
        IF t >= dt THEN <<[form |-> "echo", delay_us |-> 5000], [form |-> "du_port", delay_us |-> 5000], [form |-> "sack", delay_us |-> 5000], [form |-> "synack", delay_us |-> 5000]>>
        ELSE <<[form |-> "te", from |-> IF v6 THEN R6(t) ELSE R4(t), delay_us |-> 1000 * t]>>])
C11Req(pr, b, ord, q, e) ==
    [id |-> "C11/req/" \o pr[1] \o pr[2] \o (IF pr[3] THEN "6" ELSE "4") \o "/" \o b.name \o "/o" \o ToString(ord[1] + ord[2]) \o "/" \o ToString(q) \o "-" \o ToString(e),
     label |-> "request/" \o pr[1] \o pr[2] \o "/" \o b.name, kind |-> "run", per_flow |-> TRUE, sack_perm |-> TRUE, isn32 |-> b.seq, seq_base32 |-> b.seq,
     ipid_base |-> b.ipid, echo_base |-> b.echo, flow_delay_us |-> ord,
     run |-> Run(pr[1], pr[2], pr[3], 1, 5, q, e), path |-> PathFor(pr[1], pr[3], 1, 5, 4, 0)]
MixSets == { <<<<"icmp", "", FALSE>>, <<"udp", "", FALSE>>, <<"tcp", "syn", FALSE>>, <<"tcp", "sack", FALSE>>>>,
             <<<<"icmp", "", FALSE>>, <<"icmp", "", FALSE>>, <<"icmp", "", FALSE>>>>,
             <<<<"tcp", "syn", FALSE>>, <<"tcp", "syn", FALSE>>, <<"tcp", "prefer_sack", FALSE>>>>,
             <<<<"udp", "", FALSE>>, <<"udp", "", FALSE>>, <<"icmp", "", FALSE>>>>,
             <<<<"icmp", "", TRUE>>, <<"udp", "", TRUE>>, <<"icmp", "", TRUE>>>> }
C11Mix(ms, b, ord, q) ==
    LET rp(i) == [Run(ms[i][1], ms[i][2], ms[i][3], 1, 5, q, 1) EXCEPT !.port = 443, !.listen_port = 0] IN
    [id |-> "C11/mix/" \o ToJson([i \in DOMAIN ms |-> ms[i][1] \o ms[i][2]]) \o "/" \o b.name \o "/o" \o ToString(ord[1] + ord[2]) \o "/" \o ToString(q),
     label |-> "mix/" \o ms[1][1] \o "+" \o ms[2][1] \o ms[2][2] \o "+" \o ms[3][1] \o ms[3][2] \o "/" \o b.name,
     kind |-> "run", per_flow |-> TRUE, sack_perm |-> TRUE, isn32 |-> b.seq, seq_base32 |-> b.seq, ipid_base |-> b.ipid, echo_base |-> b.echo, flow_delay_us |-> ord,
     run |-> [rp(1) EXCEPT !.listen_port = IF \E i \in DOMAIN ms : ms[i][2] \in {"sack", "prefer_sack"} THEN 443 ELSE 0],
     mix |-> [i \in 1..(Len(ms) - 1) |-> rp(i + 1)], path |-> MixPath(ms[1][3], 1, 5, 4)]
C11Alloc(pb, eb, cs) ==
    [id |-> "C11/alloc/" \o ToString(pb) \o "/" \o ToString(eb) \o "/" \o ToJson(cs), label |-> "alloc/" \o ToString(pb), kind |-> "alloc",
     extra |-> [pid_base |-> pb, echo_base |-> eb, callers |-> cs]]
\* UDP runs are told apart by their source port only (the IP-ID is a function of the TTL): with as few ephemeral ports as there are
\* concurrent runs (+1) every run must still own its port for as long as it is running
C11Ports(v6, q, ord) ==
    [C11Req(<<"udp", "", v6>>, CHOOSE b \in WrapBases : b.name = "mid", ord, q, 0) EXCEPT
        !.id = "C11/ports/udp" \o (IF v6 THEN "6" ELSE "4") \o "/" \o ToString(q) \o "/o" \o ToString(ord[1] + ord[2]),
        !.label = "request/udp/few_ephemeral_ports/" \o ToString(q)] @@ [extra |-> [port_range |-> <<40000, 40000 + q>>]]
C11All(u) ==
    { C11Req(pr, b, ord, 3, e) : pr \in Protos, b \in WrapBases, ord \in Orders, e \in {0, 2} }
    \cup { C11Ports(v6, q, ord) : v6 \in BOOLEAN, q \in {3, 5}, ord \in Orders }
    \cup { [C11Ports(FALSE, q, Orders1) EXCEPT !.id = "C11/ports/icmp4/" \o ToString(q), !.label = "request/icmp/few_ephemeral_ports/" \o ToString(q),
                                                !.run.protocol = "icmp", !.path = PathFor("icmp", FALSE, 1, 5, 4, 0)] : q \in {3, 5} }
    \cup { C11Mix(ms, b, ord, q) : ms \in MixSets, b \in WrapBases, ord \in Orders, q \in {1, 2} }
    \cup { [id |-> "C11/alloc/stress/" \o ToString(pb), label |-> "alloc/stress/" \o ToString(pb), kind |-> "alloc",
            extra |-> [pid_base |-> pb, echo_base |-> 0, callers |-> <<[m |-> 1, n |-> 1]>>, stress |-> [g |-> 16, n |-> 120, m |-> 30, rounds |-> IF Tier = "quick" THEN 150 ELSE 1500]]]
            : pb \in {0, 65000} }
    \* ... and rounds that all START just below the 16-bit rollover (few blocks per caller: every caller is active when the counter wraps)
    \cup { [id |-> "C11/alloc/stress/wrap/" \o ToString(rb), label |-> "alloc/stress/at_rollover/" \o ToString(rb), kind |-> "alloc",
            extra |-> [pid_base |-> rb, echo_base |-> 0, callers |-> <<[m |-> 1, n |-> 1]>>,
                       stress |-> [g |-> 16, n |-> 4, m |-> 30, rounds |-> IF Tier = "quick" THEN 1500 ELSE 15000, reset_base |-> rb]]]
            : rb \in {65440, 65500} }
    \cup { C11Alloc(pb, eb, cs) : pb \in {0, 65000, 65535, 131000}, eb \in {0, 65530, 65535},
              cs \in { <<[m |-> 255, n |-> 4], [m |-> 255, n |-> 4], [m |-> 30, n |-> 8], [m |-> 1, n |-> 8]>>, <<[m |-> 30, n |-> 20], [m |-> 30, n |-> 20]>> } }

---------------------------------------------------------------------------
(* C17 over the wire: routers carrying private / boundary addresses, through RunTraceroute and the HTTP handler, with and *)
(* without reverse-DNS enrichment (stub resolver returning names for private addresses too)                                *)
PrivRouters == << "10.0.0.1", "172.16.0.1", "172.32.0.1", "192.168.255.255", "192.169.0.0", "9.255.255.255" >>
\* sil: the TTL that stays unanswered (an empty hop BEFORE private hops when sil = 2); sp: the spelling of the boolean query parameters
\* (everything strconv.ParseBool accepts means the same)
TrueSp == <<"true", "1", "t", "T", "TRUE", "True">>
FalseSp == <<"false", "0", "f", "F", "FALSE", "False">>
RoutersAt(sil) == [t \in 1..7 |-> IF t = sil THEN "" ELSE IF t < sil THEN PrivRouters[t] ELSE PrivRouters[t - 1]]
PrivAt(sil) == LET pv == <<TRUE, TRUE, FALSE, TRUE, FALSE, FALSE>> IN [t \in 1..7 |-> IF t = sil THEN FALSE ELSE IF t < sil THEN pv[t] ELSE pv[t - 1]]
C17Run(pr, via, skip, rdns, sil, sp) ==
    [id |-> "C17/run/" \o pr[1] \o pr[2] \o "/" \o via \o "/" \o (IF skip THEN "skip" ELSE "keep") \o (IF rdns THEN "/rdns" ELSE "") \o "/sil" \o ToString(sil) \o "/sp" \o ToString(sp),
     label |-> "wire/" \o pr[1] \o pr[2] \o "/" \o via \o (IF skip THEN "" ELSE "/keep") \o (IF rdns THEN "/rdns" ELSE "") \o "/sil" \o ToString(sil) \o "/sp" \o ToString(sp),
     kind |-> "run", sack_perm |-> TRUE, isn32 |-> <<4660, 1>>,
     extra |-> [expect17 |-> [skip |-> skip, rdns |-> rdns, routers |-> RoutersAt(sil), private |-> PrivAt(sil), private_target |-> FALSE, single |-> FALSE]],
     run |-> [Run(pr[1], pr[2], FALSE, 1, 8, 2, 1) EXCEPT !.skip_private = skip, !.reverse_dns = rdns, !.via = via,
                !.dns = [x \in {"*"} |-> "name-of-hop"],
                !.query = "target=" \o T4 \o "&protocol=" \o pr[1] \o "&tcp-method=" \o pr[2] \o "&port=443&max-ttl=8&timeout=300&traceroute-queries=2&e2e-queries=1"
                          \o "&skip-private-hops=" \o (IF skip THEN TrueSp[sp] ELSE FalseSp[sp]) \o "&reverse-dns=" \o (IF rdns THEN TrueSp[sp] ELSE FalseSp[sp])],
     path |-> PathOf([t \in 1..8 |->
                IF t = 8 THEN (IF pr[1] = "tcp" THEN <<[form |-> "sack", delay_us |-> 9000], [form |-> "synack", delay_us |-> 9000]>> ELSE <<[form |-> DestFormOf(pr[1], ""), delay_us |-> 9000]>>)
                ELSE IF t = sil THEN <<>> ELSE <<[form |-> "te", from |-> RoutersAt(sil)[t], delay_us |-> 1000 * t]>>])]
\* a PRIVATE target: the routers before it and the destination hop itself are redacted like any other private hop
C17Priv(pr, via, skip) ==
    LET base == C17Run(pr, via, skip, FALSE, 7, 1)  tgt == "10.20.30.40" IN
    [base EXCEPT !.id = @ \o "/private_target", !.label = @ \o "/private_target",
                 !.run.hostname = tgt,
                 !.run.query = "target=" \o tgt \o "&protocol=" \o pr[1] \o "&tcp-method=" \o pr[2] \o "&port=443&max-ttl=8&timeout=300&traceroute-queries=2&e2e-queries=1"
                               \o "&skip-private-hops=" \o (IF skip THEN "true" ELSE "false"),
                 !.extra.expect17.private_target = TRUE]
\* a trace over ONE TTL (max-ttl 1): its only hop is private and is redacted like any other
C17Single(pr, via, skip) ==
    LET base == C17Run(pr, via, skip, FALSE, 7, 1) IN
    [base EXCEPT !.id = @ \o "/single_ttl", !.label = @ \o "/single_ttl", !.run.max_ttl = 1,
                 !.run.query = "target=" \o T4 \o "&protocol=" \o pr[1] \o "&tcp-method=" \o pr[2] \o "&port=443&max-ttl=1&timeout=300&traceroute-queries=2&e2e-queries=1"
                               \o "&skip-private-hops=" \o (IF skip THEN "true" ELSE "false"),
                 !.extra.expect17.single = TRUE]
\* the HTTP request carries an UNPARSABLE value for another optional parameter (which falls back to its default): skipping is
\* still what the request said
C17BadSibling(pr, sil, bad, front) ==
    LET base == C17Run(pr, "http", TRUE, FALSE, sil, 1) IN
    [base EXCEPT !.id = @ \o "/bad_sibling/" \o bad \o (IF front THEN "/front" ELSE "/back"), !.label = @ \o "/unparsable_sibling_parameter",
                 !.run.query = IF front THEN bad \o "&" \o @ ELSE @ \o "&" \o bad]
C17All(u) == { C17BadSibling(pr, sil, bad, fr) : pr \in {<<"icmp", "", FALSE>>, <<"udp", "", FALSE>>}, sil \in {2, 7},
                                                   bad \in {"ipv6=maybe", "windows-driver=si", "source-public-ip=si", "port=q", "reverse-dns=maybe"}, fr \in BOOLEAN }
             \cup { C17Single(pr, via, sk) : pr \in {<<"icmp", "", FALSE>>, <<"udp", "", FALSE>>, <<"tcp", "syn", FALSE>>}, via \in {"lib", "http"}, sk \in BOOLEAN } \cup { C17Priv(pr, via, sk) : pr \in {<<"icmp", "", FALSE>>, <<"udp", "", FALSE>>}, via \in {"lib", "http"}, sk \in BOOLEAN } \cup { C17Run(pr, via, sk, rd, sil, 1) : pr \in {<<"icmp", "", FALSE>>, <<"udp", "", FALSE>>, <<"tcp", "syn", FALSE>>, <<"tcp", "sack", FALSE>>},
                 via \in {"lib", "http"}, sk \in BOOLEAN, rd \in BOOLEAN, sil \in {2, 7} }
             \cup { C17Run(<<"icmp", "", FALSE>>, "http", sk, rd, 2, sp) : sk \in BOOLEAN, rd \in BOOLEAN, sp \in 2..6 }

---------------------------------------------------------------------------
(* Server.tla in one place: the HTTP surface (server/server.go). Not one of the listed properties: evaluated as an extra  *)
(* (formula S01, a failure is reported as spec drift). Status = 405 for a wrong method, 400 for a missing target, 500 for  *)
(* a request the library rejects, 200 + application/json otherwise; /health answers GET and HEAD.                          *)
HttpScen(name, method, path, query, status) ==
    [id |-> "S01/" \o name, label |-> "http/" \o name, kind |-> "run", per_flow |-> TRUE, sack_perm |-> TRUE, isn32 |-> <<4660, 1>>,
     extra |-> [expect_status |-> status],
     run |-> [Run("udp", "", FALSE, 1, 3, 1, 0) EXCEPT !.via = "http", !.http_method = method, !.http_path = path, !.query = query, !.timeout_ms = 120],
     path |-> PathOf([t \in 1..3 |-> IF t = 3 THEN <<[form |-> "du_port", delay_us |-> 3000]>> ELSE <<[form |-> "te", from |-> R4(t), delay_us |-> 1000 * t]>>])]
Q0 == "target=198.51.100.9&max-ttl=3&timeout=120&traceroute-queries=1&e2e-queries=0"
S01All(u) ==
    { HttpScen("get_ok", "GET", "/traceroute", Q0, 200), HttpScen("post", "POST", "/traceroute", Q0, 405), HttpScen("put", "PUT", "/traceroute", Q0, 405),
      HttpScen("head", "HEAD", "/traceroute", Q0, 405), HttpScen("no_target", "GET", "/traceroute", "max-ttl=3", 400),
      HttpScen("empty_target", "GET", "/traceroute", "target=&max-ttl=3", 400), HttpScen("bad_proto", "GET", "/traceroute", Q0 \o "&protocol=sctp", 500),
      HttpScen("bad_ttl", "GET", "/traceroute", "target=198.51.100.9&max-ttl=300&traceroute-queries=1&e2e-queries=0", 500),
      HttpScen("junk_numbers", "GET", "/traceroute", "target=198.51.100.9&max-ttl=abc&timeout=xyz&port=q&traceroute-queries=1&e2e-queries=0&ipv6=maybe", 200),
      HttpScen("health_get", "GET", "/health", "", 200), HttpScen("health_head", "HEAD", "/health", "", 200), HttpScen("health_post", "POST", "/health", "", 405) }

---------------------------------------------------------------------------
(* History: what THIS process served before must not change what a request means. The requests in "before" run first, in the   *)
(* same process (same caches, same server, same package-level state), over a wire of their own that is not part of the trace.  *)
\* C19: the same dual-stack name was traced with the OTHER address family a moment ago
C19Hist(name, w6) ==
    [C19Scen(<<"udp", "", w6>>, 1, 3, 0, name, "host") EXCEPT !.id = @ \o "/after_other_family", !.label = @ \o "/after_other_family"]
    @@ [before |-> <<[Run("udp", "", ~w6, 1, 3, 1, 0) EXCEPT !.hostname = name, !.timeout_ms = 120, !.delay_ms = 1]>>]
\* C19: the same NAME was traced a moment ago with another protocol / another port (ICMP resolves a name without a port of its
\* own): the new request goes to ITS port
C19HistName(pr, port, bpr, bport) ==
    [C19Scen(pr, 1, 3, port, "four.test", "host") EXCEPT !.id = @ \o "/after_" \o bpr[1] \o ToString(bport), !.label = @ \o "/name_traced_before_with_other_port"]
    @@ [before |-> <<[Run(bpr[1], bpr[2], FALSE, 1, 3, 1, 0) EXCEPT !.hostname = "four.test", !.port = bport, !.timeout_ms = 120, !.delay_ms = 1]>>]
\* C20: prefer_sack towards a SACK-capable port, after a closed port of the same host made an earlier SACK attempt impossible
C20Hist(m) ==
    [C20Scen(m, "sack_ok", "none", 0) EXCEPT !.id = @ \o "/after_closed_port", !.label = @ \o "/after_closed_port"]
    @@ [before |-> <<[Run("tcp", "prefer_sack", FALSE, 1, 4, 1, 0) EXCEPT !.port = 444, !.listen_port = 0]>>]
\* C16: the previous client of the server went away in the middle of its answer; the next answer is still ONE document
C16Hist(broken) ==
    [HttpScen("after_broken_client_" \o ToString(broken), "GET", "/traceroute", Q0, 200) EXCEPT !.id = "C16/http/after_broken_client/" \o ToString(broken)]
    @@ [before |-> <<[Run("udp", "", FALSE, 1, 3, 1, 0) EXCEPT !.via = "http", !.query = Q0, !.timeout_ms = 120, !.broken_writer = broken]>>]
\* C17: an identical request WITHOUT redaction is being served by the same server while the redacting one arrives
C17Conc(pr, late) ==
    LET base == C17Run(pr, "http", TRUE, FALSE, 7, 1)
        plain == [base.run EXCEPT !.query = "target=" \o T4 \o "&protocol=" \o pr[1] \o "&tcp-method=" \o pr[2] \o "&port=443&max-ttl=8&timeout=300&traceroute-queries=2&e2e-queries=1"
                                             \o "&skip-private-hops=false&reverse-dns=false", !.skip_private = FALSE] IN
    [base EXCEPT !.id = @ \o "/concurrent_plain/" \o ToString(late), !.label = @ \o "/concurrent_plain", !.run.start_delay_us = late]
    @@ [mix |-> <<plain>>]
\* C05 (end-to-end samples): the target's ADDRESS answers, but not in a form that proves arrival (a time-exceeded carrying the target's
\* own address: a NAT / load-balancer VIP): no destination hop, so every end-to-end sample is 0
C05E2E(pr, e) ==
    [C11Req(pr, CHOOSE b \in WrapBases : b.name = "mid", Orders1, 1, e) EXCEPT !.id = "C05/e2e/te_from_target/" \o pr[1] \o pr[2] \o "/" \o ToString(e),
        !.label = "request/" \o pr[1] \o pr[2] \o "/e2e/no_proof_of_arrival",
        !.path = PathOf([t \in 1..5 |-> IF t >= 4 THEN <<[form |-> "te", from |-> "TARGET", delay_us |-> 5000]>> ELSE <<[form |-> "te", from |-> R4(t), delay_us |-> 1000 * t]>>])]
C05All(u) == { C05E2E(pr, e) : pr \in {<<"icmp", "", FALSE>>, <<"tcp", "syn", FALSE>>}, e \in {1, 3} }
             \cup { C11Req(pr, CHOOSE b \in WrapBases : b.name = "mid", ord, 1, 3) : pr \in Protos, ord \in Orders }
\* C01 at request level: prefer_sack fell back to SYN (closed port); the SYN run checks quoted sources as strictly as a plain SYN run:
\* a time-exceeded that quotes another flow (other source address / port) does not create a hop
C01Req(pert) ==
    [id |-> "C01/req/prefer_sack_fallback/" \o pert[1], label |-> "request/tcp/prefer_sack/fallback/" \o pert[1], kind |-> "run", sack_perm |-> TRUE, isn32 |-> <<4660, 1>>,
     run |-> [Run("tcp", "prefer_sack", FALSE, 1, 5, 1, 0) EXCEPT !.listen_port = 0],
     path |-> PathOf([t \in 1..5 |-> IF t >= 4 THEN <<[form |-> "synack", delay_us |-> 5000]>> ELSE IF t = 3 THEN <<>> ELSE <<[form |-> "te", from |-> R4(t), delay_us |-> 1000 * t]>>]),
     inject |-> <<[at_us |-> 150000, for_ttl |-> 3, form |-> "te", from |-> "192.0.2.200", mods_d |-> pert[2], mods_s |-> pert[3], tag |-> pert[1]]>>]
C01ReqAll(u) == { C01Req(p) : p \in { <<"q_src", [x \in {} |-> 0], [q_src |-> "10.77.0.2"]>>, <<"q_sport+1", [q_sport |-> 1], [x \in {} |-> ""]>>,
                                         <<"q_dst", [x \in {} |-> 0], [q_dst |-> "198.51.100.10"]>>, <<"genuine", [x \in {} |-> 0], [x \in {} |-> ""]>> } }
\* C19 / C11: a request that differs from one IN FLIGHT on the same server only in max-ttl and query counts gets its own execution
C19Conc(late) ==
    LET me == C19Http(<<"udp", "", FALSE>>, 3, 443, T4)
        other == [me.run EXCEPT !.max_ttl = 2, !.query = "target=" \o T4 \o "&protocol=udp&tcp-method=&port=443&max-ttl=2&timeout=120&traceroute-queries=1&e2e-queries=0"] IN
    [me EXCEPT !.id = @ \o "/concurrent_other_max_ttl/" \o ToString(late), !.label = @ \o "/concurrent_other_max_ttl", !.run.start_delay_us = late] @@ [mix |-> <<other>>]
\* C16: IDENTICAL requests served at the same time (a retry, a second poller): every answer has its own fresh identifiers
C16Same(pr, n, late) ==
    LET me == C19Http(pr, 3, 443, T4) IN
    [me EXCEPT !.id = "C16/http/identical_in_flight/" \o pr[1] \o "/" \o ToString(n) \o "/" \o ToString(late), !.label = "http/" \o pr[1] \o "/identical_requests_in_flight",
               !.run.start_delay_us = late, !.extra = [expect_status |-> 200]] @@ [mix |-> [i \in 1..n |-> me.run]]
\* C19: the same host was traced on ANOTHER port a moment ago (same process)
C19Port(p1, p2) ==
    [C19Scen(<<"tcp", "syn", FALSE>>, 1, 3, p2, T4, "port") EXCEPT !.id = @ \o "/after_port" \o ToString(p1), !.label = @ \o "/after_other_port"]
    @@ [before |-> <<[Run("tcp", "syn", FALSE, 1, 3, 1, 0) EXCEPT !.port = p1, !.timeout_ms = 120, !.delay_ms = 1]>>]
\* C01: the identical request was served a moment ago: the new answer rests on packets of a NEW run
C01Repeat(pr) ==
    LET me == C19Http(pr, 3, 443, T4) IN
    [me EXCEPT !.id = "C01/http/repeat/" \o pr[1] \o pr[2], !.label = "http/" \o pr[1] \o pr[2] \o "/identical_request_repeated"] @@ [before |-> <<me.run>>]
\* C06 at request level: the configured delay between probes is kept whatever the timeout is (also a timeout SHORTER than the delay)
C06Req(pr, d, tmo) ==
    [C11Req(pr, CHOOSE b \in WrapBases : b.name = "mid", Orders1, 1, 0) EXCEPT !.id = "C06/req/" \o pr[1] \o pr[2] \o (IF pr[3] THEN "6" ELSE "4") \o "/d" \o ToString(d) \o "/t" \o ToString(tmo),
        !.label = "request/" \o pr[1] \o pr[2] \o "/delay" \o ToString(d) \o "/timeout" \o ToString(tmo), !.run.delay_ms = d, !.run.timeout_ms = tmo]
C06ReqAll(u) == { C06Req(pr, dt[1], dt[2]) : pr \in {<<"udp", "", FALSE>>, <<"icmp", "", TRUE>>, <<"tcp", "syn", FALSE>>}, dt \in {<<100, 40>>, <<300, 10>>, <<50, 300>>} }
HistAll(u) == { C19Conc(l) : l \in {0, 20000, 60000} } \cup { C19Port(80, 443), C19Port(443, 80), C19Port(80, 0) }
              \cup { C01Repeat(pr) : pr \in {<<"udp", "", FALSE>>, <<"icmp", "", FALSE>>, <<"tcp", "syn", FALSE>>} }
              \cup { C19Hist(n, w) : n \in {"dual46.test", "dual64.test"}, w \in BOOLEAN }
              \cup { C19HistName(<<"udp", "", FALSE>>, 0, <<"icmp", "", FALSE>>, 0), C19HistName(<<"udp", "", FALSE>>, 40000, <<"udp", "", FALSE>>, 0),
                     C19HistName(<<"tcp", "syn", FALSE>>, 443, <<"icmp", "", FALSE>>, 0), C19HistName(<<"tcp", "syn", FALSE>>, 8443, <<"tcp", "syn", FALSE>>, 443) } \cup { C20Hist(m) : m \in {"prefer_sack", "sack"} }
              \cup { C16Same(pr, n, l) : pr \in {<<"udp", "", FALSE>>, <<"icmp", "", FALSE>>}, n \in {1, 3}, l \in {0, 20000} }
              \cup { C16Hist(b) : b \in {1, 40, 300} } \cup { C17Conc(pr, l) : pr \in {<<"icmp", "", FALSE>>, <<"udp", "", FALSE>>}, l \in {0, 30000, 300000} }

---------------------------------------------------------------------------
---------------------------------------------------------------------------
(* C10 at request level: the enrichment services misbehave (a resolver that answers after 0.3 / 2.6 / 4.9 s, that fails, that      *)
(* stalls until its timeout; a public-IP provider that is slow or fails) - when the call returns no goroutine of it is left and    *)
(* every handle is closed, whatever the services did                                                                             *)
C10Enrich(pr, dnsb, pub, via) ==
    [id |-> "C10/enrich/" \o pr[1] \o pr[2] \o "/" \o via \o "/" \o dnsb \o "/" \o pub, label |-> "enrich/" \o pr[1] \o "/" \o via \o "/dns=" \o dnsb \o "/pub=" \o pub,
     kind |-> "run", per_flow |-> TRUE, sack_perm |-> TRUE, isn32 |-> <<4660, 1>>,
     run |-> [Run(pr[1], pr[2], pr[3], 1, 4, 1, 1) EXCEPT !.reverse_dns = TRUE, !.dns = [x \in {"*"} |-> dnsb], !.via = via,
                !.public_ip = (pub # "none"), !.pub_mode = IF pub = "none" THEN "ok" ELSE pub,
                !.query = "target=" \o T4 \o "&max-ttl=4&traceroute-queries=1&e2e-queries=1&timeout=300&reverse-dns=true&protocol=" \o pr[1] \o (IF pub # "none" THEN "&source-public-ip=true" ELSE "")],
     path |-> PathFor(pr[1], pr[3], 1, 4, 3, 0)]
\* a query fails while the public-IP provider is still being asked: the error is returned with nothing left running
C10EnrichFail(pr, pub, via) ==
    [C10Enrich(pr, "n-a", pub, via) EXCEPT !.id = @ \o "/query_fails", !.label = @ \o "/query_fails"]
    @@ [faults |-> <<[op |-> "write", k |-> 1, class |-> "fatal", run |-> 1]>>]
C10ReqAll(u) == { C10EnrichFail(pr, pub, via) : pr \in {<<"udp", "", FALSE>>, <<"icmp", "", FALSE>>}, pub \in {"slow", "ok", "fail"}, via \in {"lib", "http"} } \cup { C10Enrich(pr, d, pub, via) : pr \in {<<"udp", "", FALSE>>, <<"icmp", "", FALSE>>}, via \in {"lib", "http"},
                                               d \in {"+300:n-slow", "+2600:n-slower", "+4900:n-slowest", "!boom", "~", "n-a;+2600:n-b"}, pub \in {"none", "ok", "slow", "fail"} }

---------------------------------------------------------------------------
(* C04 at request level: the destination mark of the Results the LIBRARY returns (the JSON document has no such field), with and     *)
(* without reverse-DNS enrichment (names / no names / failing resolver): marked exactly on the hops that are the target's           *)
C04Req(pr, rdns, dnsb) ==
    [id |-> "C04/req/" \o pr[1] \o pr[2] \o (IF pr[3] THEN "6" ELSE "4") \o "/" \o (IF rdns THEN "rdns" ELSE "plain") \o "/" \o dnsb,
     label |-> "request/" \o pr[1] \o pr[2] \o "/" \o (IF rdns THEN "rdns=" \o dnsb ELSE "plain"),
     kind |-> "run", per_flow |-> TRUE, sack_perm |-> TRUE, isn32 |-> <<4660, 1>>,
     run |-> [Run(pr[1], pr[2], pr[3], 1, 5, 2, 1) EXCEPT !.reverse_dns = rdns, !.dns = [x \in {"*"} |-> dnsb]],
     path |-> PathFor(pr[1], pr[3], 1, 5, 3, 0)]
C04ReqAll(u) == { C04Req(pr, TRUE, d) : pr \in Protos, d \in {"n-a", "x-1,y-2", "", "!boom"} } \cup { C04Req(pr, FALSE, "none") : pr \in Protos }

Cases == CASE Gen = "C04" -> C04ReqAll(0) [] Gen = "C06" -> C06ReqAll(0) [] Gen = "C10" -> C10ReqAll(0) [] Gen = "C01" -> C01ReqAll(0) [] Gen = "C05" -> C05All(0) [] Gen = "Hist" -> HistAll(0) [] Gen = "C15" -> C15All(0)
           [] Gen = "C11" -> C11All(0)
           [] Gen = "C17" -> C17All(0)
           [] Gen = "C19" -> C19All(0)
           [] Gen = "S01" -> S01All(0)
           [] Gen = "C20" -> C20All(0)
           [] OTHER -> {}

ASSUME LET c == Cases
           pk == IF NMax > 0 /\ Cardinality(c) > NMax THEN RandomSubset(NMax, c) ELSE c
       IN /\ ndJsonSerialize(IOEnv.VT_OUT, SetToSeq(pk))
          /\ PrintT(<<"GEN", Gen, Cardinality(c), Cardinality(pk)>>)
GInit == gx = 0 /\ prm = 0 /\ dec = 0
GNext == UNCHANGED <<gx, prm, dec>>
=============================================================================
