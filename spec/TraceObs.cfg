SPECIFICATION Spec
CONSTANTS
  Narrow8 = FALSE
  AnyEchoSrc = FALSE
INVARIANTS Report Drift DriftS01 DriftS02
POSTCONDITION TraceAccepted
CHECK_DEADLOCK FALSE
