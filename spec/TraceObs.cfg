SPECIFICATION Spec
INVARIANT Report
POSTCONDITION TraceAccepted
CHECK_DEADLOCK FALSE
