INIT GInit
NEXT GNext
