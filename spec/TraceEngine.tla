---------------------------- MODULE TraceEngine ----------------------------
(***************************************************************************)
(* Event-level trace validation (L2) of common.TracerouteParallel against  *)
(* EngineParallel.tla: every line recorded from the real engine (Send,     *)
(* Due, Got, Deadline, Cancel, Return) must be explained by the spec       *)
(* action of the same name with the logged values bound, the internal      *)
(* actions (SCheck, SWake, RStart, RLoop, TimeoutFire, Advance) being      *)
(* silent steps.  Many scenarios are concatenated; Reset re-initialises    *)
(* the engine from the next scenario's Begin/Params lines (which carry the *)
(* environment script in spec units).  The timed spec is urgent, so the    *)
(* search is linear outside same-instant ties.                             *)
(* Acceptance: the high-water mark of consumed lines = Len(Trace)          *)
(* (TLCSet/TLCGet register, -workers 1).                                   *)
(***************************************************************************)
EXTENDS EngineParallel, Json, IOUtils

Trace == ndJsonDeserialize(IOEnv.VT_TRACE)
Unit == 10000                       \* microseconds per abstract time unit

VARIABLE l
tvars == <<vars, l>>

Ev(e) == l <= Len(Trace) /\ Trace[l].event = e
At == Trace[l].t = now * Unit       \* the logged virtual time is the spec's clock
Consume == l' = l + 1

\* the environment script of the scenario starting at line l (Begin) / l+1 (Params)
ScriptAt(k) == [t \in TTLs |-> Trace[k].spec.script[t - MinTTL + 1]]
TInit == /\ l = 3 /\ Len(Trace) >= 2 /\ Trace[1].event = "Begin" /\ Trace[2].event = "Params"
         /\ script = ScriptAt(2) /\ cancelAt = Trace[2].spec.cancel
         /\ now = 0 /\ spc = "check" /\ si = MinTTL /\ swake = 0 /\ rpc = "wait" /\ rdl = 0
         /\ hasSent = FALSE /\ wcancel = FALSE /\ gerr = "" /\ tout = FALSE /\ ext = FALSE
         /\ inflight = {} /\ queue = <<>> /\ results = [t \in TTLs |-> Null] /\ sent = <<>> /\ acc = <<>> /\ out = NoOut
\* next scenario: only after the previous one returned
Reset == /\ out.set /\ Ev("Begin") /\ l + 1 <= Len(Trace) /\ Trace[l + 1].event = "Params"
         /\ l' = l + 2
         /\ script' = ScriptAt(l + 1) /\ cancelAt' = Trace[l + 1].spec.cancel
         /\ now' = 0 /\ spc' = "check" /\ si' = MinTTL /\ swake' = 0 /\ rpc' = "wait" /\ rdl' = 0
         /\ hasSent' = FALSE /\ wcancel' = FALSE /\ gerr' = "" /\ tout' = FALSE /\ ext' = FALSE
         /\ inflight' = {} /\ queue' = <<>> /\ results' = [t \in TTLs |-> Null] /\ sent' = <<>> /\ acc' = <<>> /\ out' = NoOut

SameReply(r, e) == r.ttl = e.ttl /\ r.dest = e.dest /\ r.ip = e.ip /\ r.err = e.err
TSend == Ev("Send") /\ At /\ Trace[l].ttl = si /\ (Trace[l].fail <=> SendFails(si)) /\ SSend /\ Consume
TDue  == Ev("Due") /\ At /\ Arrive /\ Consume
         /\ \E x \in inflight : x.at = now /\ SameReply(x.r, Trace[l]) /\ queue' = Append(queue, x.r)
TGot  == Ev("Got") /\ At /\ Len(queue) > 0 /\ SameReply(Head(queue), Trace[l]) /\ RGot /\ Consume
         /\ (Trace[l].err = "" /\ Trace[l].ttl >= MinTTL /\ Trace[l].ttl <= MaxTTL => Trace[l].rtt_us = (now - SentAt(Trace[l].ttl)) * Unit)
TDeadline == Ev("Deadline") /\ At /\ RDeadline /\ Consume
\* The harness logs "Cancel" just before it calls cancel(); the instant at which the engine's goroutines observe the
\* cancellation is not a logged linearization point, so the line itself is only a marker and ExtCancel is a silent step
\* (enabled at the scripted instant; TLC explores its order against the other steps of that instant).
TCancel == Ev("Cancel") /\ At /\ Consume /\ UNCHANGED vars
HopsMatch(h, e) ==
    /\ Len(h) = Len(e)
    /\ \A k \in DOMAIN h :
         IF h[k].k = "hop"
         THEN e[k].addr # "" /\ e[k].ttl = h[k].ttl /\ e[k].dest = h[k].dest /\ e[k].rtt_us = h[k].rtt * Unit
         ELSE e[k].addr = ""
TReturn == /\ Ev("Return") /\ At /\ Finish /\ Consume
           /\ out'.ok = Trace[l].ok
           /\ (out'.ok => HopsMatch(out'.hops, Trace[l].hops))
           /\ (~out'.ok => (out'.err = "canceled" <=> Trace[l].err.canceled))
Silent == (SPublish \/ RPublish \/ SCheck \/ SWake \/ RStart \/ RLoop \/ TimeoutFire \/ ExtCancel \/ Advance) /\ UNCHANGED l

\* a scripted reply that becomes readable at the very instant the run has ended (the driver's timers are stopped only after
\* the engine has returned): nothing reads it any more
TDueLate == Ev("Due") /\ out.set /\ Consume /\ UNCHANGED vars
TNext == TSend \/ TDue \/ TDueLate \/ TGot \/ TDeadline \/ TCancel \/ TReturn \/ Reset \/ Silent
TSpec == TInit /\ [][TNext]_tvars

\* high-water mark of consumed lines (register 1), evaluated as a state constraint on every reached state
HighWater == TLCSet(1, IF TLCGet(1) > l THEN TLCGet(1) ELSE l)
ASSUME TLCSet(1, 0)
TraceAccepted == IF TLCGet(1) = Len(Trace) + 1 THEN TRUE
                 ELSE PrintT(<<"L2E", "stuck_before_line", TLCGet(1), Trace[IF TLCGet(1) > Len(Trace) THEN Len(Trace) ELSE TLCGet(1)].event>>) /\ FALSE
\* for diagnosis: where the longest matched prefix ended
Stuck == PrintT(<<"L2E", "consumed", TLCGet(1) - 1, "of", Len(Trace)>>)
=============================================================================
