SPECIFICATION Spec
CONSTANTS
  GuardSack = FALSE
  Driver = "sack"
INVARIANT C14_NoRace
CHECK_DEADLOCK FALSE
